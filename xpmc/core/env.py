"""Process environment shared by every check: which tree is under test, interpreter settings."""
from __future__ import annotations

import os
import sys

REPO = os.environ.get("XPMC_REPO", "/repo")
VERIF = os.path.dirname(os.path.dirname(os.path.dirname(os.path.abspath(__file__))))
PY = "/venv/bin/python"
GUARD = "XONSH_PARSER_VERIF"


def setup() -> None:
    """Make `peg_parser`, `pegen`, `tasks` resolve to the working tree under test."""
    sys.dont_write_bytecode = True
    os.environ.setdefault("PYTHONDONTWRITEBYTECODE", "1")
    os.environ[GUARD] = "1"
    if sys.path[0] != REPO:
        sys.path.insert(0, REPO)
    import peg_parser  # noqa: F401

    got = os.path.dirname(os.path.dirname(os.path.abspath(peg_parser.__file__)))
    if os.path.realpath(got) != os.path.realpath(REPO):
        raise SystemExit(f"xpmc: peg_parser imported from {got}, expected {REPO}")


def nworkers() -> int:
    n = os.environ.get("XPMC_WORKERS")
    if n:
        return max(1, int(n))
    return max(1, min(16, os.cpu_count() or 1))
