"""Accumulator: what one worker (and, merged, one run) observed.

A property's `run_unit(unit, acc)` enumerates its cases through `acc.watch(...)` (which drives the
parent-side watchdog) and reports through `acc.count`, `acc.violation`, `acc.state`, `acc.edge`.
Everything here is mergeable and picklable.
"""
from __future__ import annotations

from array import array
from collections import Counter
from typing import Any, Iterable, Iterator

from . import kf

MAX_EXAMPLES = 4  # examples kept per distinct (signature) per worker
MAX_SIGS = 400  # distinct violation signatures kept per worker (beyond that only counted)


class Acc:
    def __init__(self, prop: str, seed: int = 0) -> None:
        self.prop = prop
        self.seed = seed
        self.counts: Counter[str] = Counter()
        self.evaluations = 0  # executions of the real code
        self.cases = 0  # cases enumerated
        self.states = 0
        self.transitions = 0
        self.violations: dict[str, dict[str, Any]] = {}
        self.violation_total = 0
        self.known: Counter[str] = Counter()
        self.known_examples: dict[str, Any] = {}
        self.samples: list[Any] = []
        self.distinct: Counter[str] = Counter()  # named sets whose size is counted (outcome classes)
        self.notes: dict[str, Any] = {}
        # watchdog plumbing (set by the pool in workers)
        self._slot = None
        self._slot_i = 0
        self._skip: frozenset[int] = frozenset()
        self._unit_id = 0
        self.hang_cases: list[Any] = []
        self.nt = array("q")  # hashes of distinct non-trivial cases (deduplicated by the parent)

    # ------------------------------------------------------------------ enumeration
    def watch(self, cases: Iterable[Any]) -> Iterator[Any]:
        """Yield cases; tells the parent which case index is running and since when."""
        import time

        slot, si, skip = self._slot, self._slot_i, self._skip
        sample_at = (self.seed * 7919 + self._unit_id * 104729) % 997
        i = -1
        for i, case in enumerate(cases):
            if i in skip:
                self.hang_cases.append(case)
                continue
            if slot is not None:
                slot[si + 1] = float(i)
                slot[si] = time.time()
            self.cases += 1
            if i == 0 or i % 997 == sample_at:
                if len(self.samples) < 6:
                    self.samples.append(case)
            yield case
        if slot is not None:
            slot[si] = 0.0

    # ------------------------------------------------------------------ reporting
    def count(self, cls: str, n: int = 1) -> None:
        self.counts[cls] += n

    def nontrivial(self, key: Any) -> None:
        """Register one distinct non-trivial case (by hash; the parent de-duplicates across workers)."""
        self.nt.append(hash(key))

    def ran(self, n: int = 1) -> None:
        self.evaluations += n

    def state(self, n: int = 1) -> None:
        self.states += n

    def edge(self, n: int = 1) -> None:
        self.transitions += n

    def violation(self, signature: str, case: Any, detail: Any = None, text: str | None = None) -> bool:
        """Report a property violation. Returns True if it is a *new* (unlisted) violation.

        `text` is the input text the known-findings predicates look at (defaults to case if str).
        """
        if text is None:
            text = case if isinstance(case, str) else (case.get("src") if isinstance(case, dict) else None)
        kid = kf.match(self.prop, signature, text, case)
        if kid is not None:
            self.known[kid] += 1
            if kid not in self.known_examples:
                self.known_examples[kid] = {"case": case, "signature": signature}
            return False
        self.violation_total += 1
        ent = self.violations.get(signature)
        if ent is None:
            if len(self.violations) >= MAX_SIGS:
                self.counts["violations_beyond_signature_cap"] += 1
                return True
            ent = self.violations[signature] = {"count": 0, "examples": []}
        ent["count"] += 1
        if len(ent["examples"]) < MAX_EXAMPLES:
            ent["examples"].append({"case": case, "detail": detail})
        else:
            # keep the shortest examples: they make the best replays
            key = _size(case)
            worst = max(range(len(ent["examples"])), key=lambda j: _size(ent["examples"][j]["case"]))
            if key < _size(ent["examples"][worst]["case"]):
                ent["examples"][worst] = {"case": case, "detail": detail}
        return True

    # ------------------------------------------------------------------ merging
    def merge(self, other: "Acc") -> None:
        self.counts.update(other.counts)
        self.evaluations += other.evaluations
        self.cases += other.cases
        self.states += other.states
        self.transitions += other.transitions
        self.violation_total += other.violation_total
        self.known.update(other.known)
        for k, v in other.known_examples.items():
            self.known_examples.setdefault(k, v)
        for sig, ent in other.violations.items():
            mine = self.violations.get(sig)
            if mine is None:
                self.violations[sig] = {"count": ent["count"], "examples": list(ent["examples"])}
            else:
                mine["count"] += ent["count"]
                ex = mine["examples"] + ent["examples"]
                ex.sort(key=lambda e: _size(e["case"]))
                mine["examples"] = ex[:MAX_EXAMPLES]
        for s in other.samples:
            if len(self.samples) < 12:
                self.samples.append(s)
        self.distinct.update(other.distinct)
        for k, v in other.notes.items():
            if isinstance(v, (int, float)) and isinstance(self.notes.get(k), (int, float)):
                self.notes[k] += v
            elif isinstance(v, list) and isinstance(self.notes.get(k), list):
                self.notes[k].extend(v)
            elif isinstance(v, set) and isinstance(self.notes.get(k), set):
                self.notes[k] |= v
            else:
                self.notes.setdefault(k, v)
        self.hang_cases.extend(other.hang_cases)
        if len(other.nt):
            if not hasattr(self, "_ntset"):
                self._ntset = set(self.nt)
            self._ntset.update(other.nt)

    def distinct_nontrivial(self) -> int:
        if hasattr(self, "_ntset"):
            return len(self._ntset)
        return len(set(self.nt))


def _size(case: Any) -> int:
    if isinstance(case, str):
        return len(case)
    if isinstance(case, dict) and isinstance(case.get("src"), str):
        return len(case["src"])
    return len(repr(case))
