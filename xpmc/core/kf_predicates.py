"""Named input predicates used by known_findings.json (tiny pure functions of the input text / case)."""
from __future__ import annotations

from typing import Any


def always(text: str | None, case: Any) -> bool:
    return True


def non_ascii(text: str | None, case: Any) -> bool:
    return bool(text) and not text.isascii()


_ONLY_BACKSLASH = __import__("re").compile(r"(?m)^[ \t\f]*\\\r?\n")


def line_is_only_backslash(text: str | None, case: Any) -> bool:
    """Some physical line consists of nothing but a backslash continuation."""
    return bool(text) and bool(_ONLY_BACKSLASH.search(text))


def has_fstring(text: str | None, case: Any) -> bool:
    import re

    return bool(text) and bool(re.search(r"(?i)(?<![A-Za-z0-9_])(?:f|fr|rf|pf|fp)['\"]", text))


def mixed_tab_space_indent(text: str | None, case: Any) -> bool:
    """Leading whitespace uses a tab on some line and a space on some (possibly the same) line."""
    import re

    if not text:
        return False
    lead = re.findall(r"(?m)^[ \t\f]+", text)
    return any("\t" in w for w in lead) and any(" " in w for w in lead)


def construct_inside_binding_target(text: str | None, case: Any) -> bool:
    """C05 case whose construct sits (in Load position) inside a for / with-as / comprehension target."""
    import ast

    if not isinstance(case, dict) or "py" not in case or not case.get("pyspan"):
        return False
    py, (a, _b) = case["py"], case["pyspan"]
    line = py.count("\n", 0, a) + 1
    col = a - (py.rfind("\n", 0, a) + 1)
    try:
        tree = ast.parse(py)
    except SyntaxError:
        return False
    for node in ast.walk(tree):
        tg = []
        if isinstance(node, (ast.For, ast.AsyncFor, ast.comprehension)):
            tg = [node.target]
        elif isinstance(node, ast.withitem) and node.optional_vars is not None:
            tg = [node.optional_vars]
        for t in tg:
            for sub in ast.walk(t):
                if getattr(sub, "lineno", None) == line and getattr(sub, "col_offset", None) == col and isinstance(getattr(sub, "ctx", None), ast.Load):
                    return True
    return False


def proc_macro_text_has_curly_or_at_paren(text: str | None, case: Any) -> bool:
    raw = case.get("raw", "") if isinstance(case, dict) else ""
    return any(t in raw for t in ("{", "}", "@(", "@$(", "${"))


def proc_macro_text_has_nonword_token(text: str | None, case: Any) -> bool:
    """Raw text of a subprocess macro holding a search path, an f-string or nested brackets (tokens any_cmd lacks)."""
    import re

    raw = case.get("raw", "") if isinstance(case, dict) else ""
    nested = bool(re.search(r"[(\[][^)\]]*[(\[]", raw))
    return "`" in raw or bool(re.search(r"(?i)(?<![a-z0-9_])[rbup]*f[rbup]*['\"]", raw)) or nested


def fstring_has_doubled_brace(text: str | None, case: Any) -> bool:
    return bool(text) and ("{{" in text or "}}" in text)


def newline_in_format_spec(text: str | None, case: Any) -> bool:
    import re

    return bool(text) and bool(re.search(r"\{[^{}]*:[^{}'\"]*\r?\n", text))


_SIG = None  # set by kf.match(): the signature being matched


def _debug_accidents(text: str | None) -> set[str] | None:
    """Which of CPython 3.12.1's two accidents with the text of '=' debug fields explain ALL differences between the two
    trees: 'comment' (everything from a '#' to the end of the line is removed, inside string literals too) and 'escape'
    (backslash escapes are decoded).  None if something else differs.  Each differing text Constant must become equal
    by applying the accidents to some suffix of it (the debug text is merged with the literal part before it), and the
    trees must then be identical, positions included."""
    import ast
    import re
    import warnings

    from ..oracle import run

    if not text or "=" not in text:
        return None
    so, ours = run.ours(text, "exec")
    sc, ref = run.cpy(text, "exec")
    if so != run.TREE or sc != run.TREE:
        return None
    esc = re.compile(r"\\(?:N\{[^{}]*\}|[0-7]{1,3}|x[0-9a-fA-F]{2}|u[0-9a-fA-F]{4}|U[0-9a-fA-F]{8}|.)", re.S)

    def dec(m: "re.Match[str]") -> str:
        t = m.group()
        q = "'''" if '"' in t else '"""'
        try:
            with warnings.catch_warnings():
                warnings.simplefilter("ignore")
                return str(ast.literal_eval(q + t + q))
        except (SyntaxError, ValueError):
            return t

    def strip(v: str) -> str:
        return re.sub(r"#[^\n]*", "", v)

    used: set[str] = set()
    for a, b in zip(ast.walk(ours), ast.walk(ref)):
        if type(a) is not type(b):
            return None
        if isinstance(a, ast.Constant) and isinstance(a.value, str) and isinstance(b.value, str) and a.value != b.value:
            v = a.value
            how = None
            for i in range(len(v)):
                if i and v[i] not in "#\\":
                    continue
                head, tail = v[:i], v[i:]
                if head + strip(tail) == b.value:
                    how = {"comment"}
                elif head + esc.sub(dec, tail) == b.value:
                    how = {"escape"}
                elif head + esc.sub(dec, strip(tail)) == b.value:
                    how = {"comment", "escape"}
                if how:
                    break
            if not how:
                return None
            used |= how
            a.value = b.value
    if not used or ast.dump(ours, include_attributes=True) != ast.dump(ref, include_attributes=True):
        return None
    return used


def debug_text_differs_only_by_comment(text: str | None, case: Any) -> bool:
    """KF-C10-04 (see _debug_accidents): the differences are explained by the two accidents and the comment one is among them."""
    used = _debug_accidents(text) if text and "#" in text else None
    return bool(used) and "comment" in used


def debug_text_differs_only_by_escape_decoding(text: str | None, case: Any) -> bool:
    """KF-C10-05 (see _debug_accidents): the differences are explained by escape decoding alone."""
    used = _debug_accidents(text) if text and "\\" in text else None
    return used == {"escape"}
