"""Named input predicates used by known_findings.json (tiny pure functions of the input text / case)."""
from __future__ import annotations

from typing import Any


def always(text: str | None, case: Any) -> bool:
    return True
