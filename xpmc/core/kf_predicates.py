"""Named input predicates used by known_findings.json (tiny pure functions of the input text / case)."""
from __future__ import annotations

from typing import Any


def always(text: str | None, case: Any) -> bool:
    return True


def non_ascii(text: str | None, case: Any) -> bool:
    return bool(text) and not text.isascii()


_ONLY_BACKSLASH = __import__("re").compile(r"(?m)^[ \t\f]*\\\r?\n")


def line_is_only_backslash(text: str | None, case: Any) -> bool:
    """Some physical line consists of nothing but a backslash continuation."""
    return bool(text) and bool(_ONLY_BACKSLASH.search(text))


def has_fstring(text: str | None, case: Any) -> bool:
    import re

    return bool(text) and bool(re.search(r"(?i)(?<![A-Za-z0-9_])(?:f|fr|rf|pf|fp)['\"]", text))


def mixed_tab_space_indent(text: str | None, case: Any) -> bool:
    """Leading whitespace uses a tab on some line and a space on some (possibly the same) line."""
    import re

    if not text:
        return False
    lead = re.findall(r"(?m)^[ \t\f]+", text)
    return any("\t" in w for w in lead) and any(" " in w for w in lead)


def construct_inside_binding_target(text: str | None, case: Any) -> bool:
    """C05 case whose construct sits (in Load position) inside a for / with-as / comprehension target."""
    import ast

    if not isinstance(case, dict) or "py" not in case or not case.get("pyspan"):
        return False
    py, (a, _b) = case["py"], case["pyspan"]
    line = py.count("\n", 0, a) + 1
    col = a - (py.rfind("\n", 0, a) + 1)
    try:
        tree = ast.parse(py)
    except SyntaxError:
        return False
    for node in ast.walk(tree):
        tg = []
        if isinstance(node, (ast.For, ast.AsyncFor, ast.comprehension)):
            tg = [node.target]
        elif isinstance(node, ast.withitem) and node.optional_vars is not None:
            tg = [node.optional_vars]
        for t in tg:
            for sub in ast.walk(t):
                if getattr(sub, "lineno", None) == line and getattr(sub, "col_offset", None) == col and isinstance(getattr(sub, "ctx", None), ast.Load):
                    return True
    return False


def proc_macro_text_has_curly_or_at_paren(text: str | None, case: Any) -> bool:
    raw = case.get("raw", "") if isinstance(case, dict) else ""
    return any(t in raw for t in ("{", "}", "@(", "@$(", "${"))


def proc_macro_text_has_nonword_token(text: str | None, case: Any) -> bool:
    """Raw text of a subprocess macro holding a search path, an f-string or nested brackets (tokens any_cmd lacks)."""
    import re

    raw = case.get("raw", "") if isinstance(case, dict) else ""
    nested = bool(re.search(r"[(\[][^)\]]*[(\[]", raw))
    return "`" in raw or bool(re.search(r"(?i)(?<![a-z0-9_])[rbup]*f[rbup]*['\"]", raw)) or nested


def fstring_has_doubled_brace(text: str | None, case: Any) -> bool:
    return bool(text) and ("{{" in text or "}}" in text)


def newline_in_format_spec(text: str | None, case: Any) -> bool:
    import re

    return bool(text) and bool(re.search(r"\{[^{}]*:[^{}'\"]*\r?\n", text))


_C18_FAMILIES = None
_SIG = None  # set by kf.match(): the signature being matched


def c18_family_listed(text: str | None, case: Any) -> bool:
    """The family is one of those listed (with this kind of super-linearity) in known_c18_families.json."""
    global _C18_FAMILIES
    import json
    import os

    if _C18_FAMILIES is None:
        with open(os.path.join(os.path.dirname(os.path.dirname(os.path.dirname(os.path.abspath(__file__)))), "known_c18_families.json")) as f:
            _C18_FAMILIES = json.load(f)
    kinds = _C18_FAMILIES.get(case.get("family") if isinstance(case, dict) else None)
    if not kinds:
        return False
    word = (_SIG or "").split(" ")[1] if _SIG else ""
    return word in kinds


def debug_text_differs_only_by_comment(text: str | None, case: Any) -> bool:
    """KF-C10-04: the trees become equal once, in text Constants of a JoinedStr, everything from a '#' to the end of its
    line is removed from some suffix of the text (the suffix being the text of an '=' debug field, which is merged with
    the literal part before it). CPython 3.12.1 does that to debug texts, even when the '#' sits inside a string literal."""
    import ast
    import re

    from ..oracle import run

    if not text or "#" not in text or "=" not in text:
        return False
    so, ours = run.ours(text, "exec")
    sc, ref = run.cpy(text, "exec")
    if so != run.TREE or sc != run.TREE:
        return False
    changed = False
    for a, b in zip(ast.walk(ours), ast.walk(ref)):
        if type(a) is not type(b):
            return False
        if isinstance(a, ast.Constant) and isinstance(a.value, str) and isinstance(b.value, str) and a.value != b.value:
            v = a.value
            if not any(v[:i] + re.sub(r"#[^\n]*", "", v[i:]) == b.value for i in range(len(v)) if v[i] == "#" or i == 0):
                return False
            a.value = b.value
            changed = True
    return changed and ast.dump(ours, include_attributes=True) == ast.dump(ref, include_attributes=True)
