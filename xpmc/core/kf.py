"""Known findings: read-only at run time (DESIGN §2.5).

An entry with status "known" suppresses exactly the violations whose *signature* fully matches its
regular expression AND whose input satisfies its named predicate. Entries with status "fixed" are
history: they suppress nothing.
"""
from __future__ import annotations

import json
import os
import re
from functools import lru_cache
from typing import Any

from .env import VERIF

PATH = os.path.join(VERIF, "known_findings.json")


@lru_cache(maxsize=None)
def _load() -> dict[str, list[dict[str, Any]]]:
    by_prop: dict[str, list[dict[str, Any]]] = {}
    if not os.path.exists(PATH):
        return by_prop
    with open(PATH, encoding="utf-8") as f:
        data = json.load(f)
    from . import kf_predicates

    for ent in data["findings"]:
        if ent.get("status") != "known":
            continue
        m = ent["match"]
        ent = dict(ent)
        ent["_sig"] = re.compile(m["signature"], re.S)
        ent["_pred"] = getattr(kf_predicates, m["predicate"])
        by_prop.setdefault(ent["property"], []).append(ent)
    return by_prop


def entries(prop: str) -> list[dict[str, Any]]:
    return _load().get(prop, [])


def all_entries() -> list[dict[str, Any]]:
    if not os.path.exists(PATH):
        return []
    with open(PATH, encoding="utf-8") as f:
        return json.load(f)["findings"]


def match(prop: str, signature: str, text: str | None, case: Any) -> str | None:
    from . import kf_predicates

    for ent in _load().get(prop, ()):
        if ent["_sig"].fullmatch(signature):
            kf_predicates._SIG = signature  # a predicate may look at the signature it is asked about
            if ent["_pred"](text, case):
                return ent["id"]
    return None
