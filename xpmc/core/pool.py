"""16 long-lived workers with a parent-side watchdog (DESIGN §2.2).

The parent never trusts an in-process alarm: each worker publishes (start time, case index, unit id)
of the case it is executing in shared memory; the parent kills a worker whose case exceeds the
deadline, re-queues the unit with that case index on its skip list and later re-runs the skipped
case alone with a long deadline before calling it a hang.
"""
from __future__ import annotations

import multiprocessing as mp
import os
import queue
import random
import signal
import sys
import time
import traceback
from typing import Any

from .acc import Acc
from .env import nworkers

CTX = mp.get_context("fork")


def _worker(wid: int, prop_mod: Any, seed: int, task_q: Any, result_q: Any, slots: Any) -> None:
    signal.signal(signal.SIGINT, signal.SIG_IGN)
    si = wid * 3
    try:
        sys.setrecursionlimit(max(sys.getrecursionlimit(), 3000))
        while True:
            task = task_q.get()
            if task is None:
                return
            unit_id, unit, skip = task
            acc = Acc(prop_mod.ID, seed)
            acc._slot, acc._slot_i, acc._skip, acc._unit_id = slots, si, frozenset(skip), unit_id
            slots[si + 2] = float(unit_id)
            slots[si + 1] = -1.0
            slots[si] = 0.0
            try:
                prop_mod.run_unit(unit, acc)
            except BaseException:  # harness error: never silently a pass
                slots[si] = 0.0
                result_q.put((unit_id, "error", traceback.format_exc()))
                continue
            slots[si] = 0.0
            slots[si + 2] = -1.0
            acc._slot = None
            result_q.put((unit_id, "ok", acc))
    except KeyboardInterrupt:
        return


class HarnessError(Exception):
    pass


def run(
    prop_mod: Any,
    units: list[Any],
    seed: int = 0,
    deadline: float = 6.0,
    workers: int | None = None,
    progress: bool = True,
    max_hangs: int = 6,
) -> Acc:
    """Run every unit; returns the merged accumulator. `acc.notes['hang_units']` lists (unit_id, idx)."""
    n = workers or nworkers()
    n = max(1, min(n, len(units))) if units else 1
    order = list(range(len(units)))
    random.Random(seed).shuffle(order)
    task_q = CTX.Queue()
    result_q = CTX.Queue()
    slots = CTX.Array("d", 3 * n, lock=False)
    for w in range(n):
        slots[3 * w + 2] = -1.0
    for uid in order:
        task_q.put((uid, units[uid], ()))
    procs: list[Any] = []
    for w in range(n):
        p = CTX.Process(target=_worker, args=(w, prop_mod, seed, task_q, result_q, slots), daemon=True)
        p.start()
        procs.append(p)

    total = Acc(prop_mod.ID, seed)
    pending = set(order)
    skips: dict[int, set[int]] = {}
    hangs: list[tuple[int, int]] = []
    t0 = time.time()
    last_print = t0
    try:
        while pending:
            if len(hangs) >= max_hangs:
                # a defect that hangs on a whole class of inputs: stop exploring, the candidates get confirmed alone
                total.notes["aborted_after_hangs"] = len(hangs)
                break
            try:
                uid, status, payload = result_q.get(timeout=0.25)
            except queue.Empty:
                uid = None
            if uid is not None:
                if status == "error":
                    raise HarnessError(f"unit {uid} ({units[uid]!r:.200}) raised in the harness:\n{payload}")
                if uid in pending:
                    pending.discard(uid)
                    total.merge(payload)
            now = time.time()
            for w in range(n):
                st = slots[3 * w]
                if st and now - st > deadline:
                    idx, wuid = int(slots[3 * w + 1]), int(slots[3 * w + 2])
                    p = procs[w]
                    try:
                        os.kill(p.pid, signal.SIGKILL)
                    except ProcessLookupError:
                        pass
                    p.join(5)
                    slots[3 * w] = 0.0
                    slots[3 * w + 2] = -1.0
                    if wuid >= 0 and wuid in pending:
                        skips.setdefault(wuid, set()).add(idx)
                        hangs.append((wuid, idx))
                        task_q.put((wuid, units[wuid], tuple(sorted(skips[wuid]))))
                    np_ = CTX.Process(
                        target=_worker, args=(w, prop_mod, seed, task_q, result_q, slots), daemon=True
                    )
                    np_.start()
                    procs[w] = np_
                elif not procs[w].is_alive() and pending:
                    # died without our kill (segfault / os-level OOM): treat like a hang of its current case
                    idx, wuid = int(slots[3 * w + 1]), int(slots[3 * w + 2])
                    if wuid >= 0 and wuid in pending:
                        skips.setdefault(wuid, set()).add(idx)
                        hangs.append((wuid, idx))
                        task_q.put((wuid, units[wuid], tuple(sorted(skips[wuid]))))
                    slots[3 * w] = 0.0
                    slots[3 * w + 2] = -1.0
                    np_ = CTX.Process(
                        target=_worker, args=(w, prop_mod, seed, task_q, result_q, slots), daemon=True
                    )
                    np_.start()
                    procs[w] = np_
            if progress and now - last_print > 20:
                last_print = now
                print(
                    f"  .. {len(units) - len(pending)}/{len(units)} units, {total.cases} cases, "
                    f"{total.violation_total} new violations, {now - t0:.0f}s",
                    file=sys.stderr,
                    flush=True,
                )
    finally:
        aborted = bool(pending)
        for _ in procs:
            try:
                task_q.put(None)
            except Exception:
                pass
        for p in procs:
            if not aborted:
                p.join(0.5)
            if p.is_alive():
                try:
                    os.kill(p.pid, signal.SIGKILL)
                except ProcessLookupError:
                    pass
                p.join(2)
        task_q.cancel_join_thread()
        result_q.cancel_join_thread()
    total.notes["hang_units"] = hangs
    return total


def run_alone(fn: Any, args: tuple[Any, ...], timeout: float) -> tuple[str, Any]:
    """Run fn(*args) in a fresh forked child; returns ('ok', value) | ('timeout', None) | ('died', code)."""
    parent, child = CTX.Pipe(duplex=False)

    def target() -> None:
        try:
            child.send(("ok", fn(*args)))
        except BaseException:
            child.send(("error", traceback.format_exc()))

    p = CTX.Process(target=target, daemon=True)
    p.start()
    if parent.poll(timeout):
        try:
            res = parent.recv()
        except EOFError:
            res = ("died", p.exitcode)
        p.join(5)
        if p.is_alive():
            os.kill(p.pid, signal.SIGKILL)
        if res[0] == "error":
            raise HarnessError(res[1])
        return res
    if p.is_alive():
        os.kill(p.pid, signal.SIGKILL)
        p.join(5)
        return ("timeout", None)
    return ("died", p.exitcode)


def fork_run(fn: Any, timeout: float) -> tuple[str, Any]:
    """Like run_alone, but with a bare os.fork (usable inside daemonic pool workers)."""
    import pickle
    import select

    r, w = os.pipe()
    pid = os.fork()
    if pid == 0:
        os.close(r)
        try:
            try:
                payload = pickle.dumps(("ok", fn()))
            except BaseException:
                payload = pickle.dumps(("error", traceback.format_exc()))
            with os.fdopen(w, "wb") as f:
                f.write(payload)
        finally:
            os._exit(0)
    os.close(w)
    chunks = []
    deadline = time.time() + timeout
    with os.fdopen(r, "rb") as f:
        while True:
            left = deadline - time.time()
            if left <= 0:
                os.kill(pid, signal.SIGKILL)
                os.waitpid(pid, 0)
                return ("timeout", None)
            ready, _, _ = select.select([f], [], [], min(left, 1.0))
            if ready:
                b = f.read1(1 << 20) if hasattr(f, "read1") else f.read()
                if not b:
                    break
                chunks.append(b)
    os.waitpid(pid, 0)
    if not chunks:
        return ("died", None)
    res = pickle.loads(b"".join(chunks))
    if res[0] == "error":
        raise HarnessError(res[1])
    return res
