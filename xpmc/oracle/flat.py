"""A complete, non-recursive serialisation of an ast tree (types, fields, constants by (type, repr), positions): equal
strings iff equal trees in the sense of astcmp.  ast.dump recurses once per tree level and gives up on the trees of
long operator / attribute chains (thousands of levels)."""
from __future__ import annotations

import ast
from typing import Any

_POS = ("lineno", "col_offset", "end_lineno", "end_col_offset")


def dump(tree: Any) -> str:
    out: list[str] = []
    stack: list[Any] = [tree]
    while stack:
        x = stack.pop()
        if isinstance(x, ast.AST):
            out.append(type(x).__name__ + "(")
            tail: list[Any] = [_Close]
            for f in reversed(x._fields):
                tail.append(getattr(x, f, _Missing))
                tail.append(_Field(f))
            if x._attributes:
                out.append("@" + ",".join(repr(getattr(x, a, None)) for a in _POS) + " ")
            stack.extend(tail)
        elif isinstance(x, list):
            out.append("[")
            stack.append(_CloseList)
            stack.extend(reversed(x))
        elif isinstance(x, _Field):
            out.append(x.name + "=")
        elif x is _Close:
            out.append(")")
        elif x is _CloseList:
            out.append("]")
        elif x is _Missing:
            out.append("<missing>,")
        else:
            out.append(f"{type(x).__name__}:{x!r},")
    return "".join(out)


class _Field:
    __slots__ = ("name",)

    def __init__(self, name: str) -> None:
        self.name = name


_Close = object()
_CloseList = object()
_Missing = object()
