"""C09 oracle: the significant tokens equal CPython's (tokenize module of the running 3.12), DESIGN C09.

compare(src) -> None (agree) | ("outside", reason) | ("diff", signature, detail)
"""
from __future__ import annotations

import ast
import io
import tokenize as T
import warnings
from typing import Any

from peg_parser.tokenize import Token

from . import run

_OURS_DROP = {Token.WS, Token.COMMENT, Token.NL}
_THEIRS_DROP = {T.COMMENT, T.NL}
_VALUED = {"NAME", "NUMBER", "STRING", "OP", "FSTRING_START", "FSTRING_MIDDLE", "FSTRING_END"}
_OPEN, _CLOSE = "([{", ")]}"


def cpython_tokens(src: str, allow_fstrings: bool = False) -> tuple[str, Any]:
    """('ok', [(type name, string, start, end)]) | ('outside', reason)"""
    try:
        with warnings.catch_warnings():
            warnings.simplefilter("ignore")
            raw = list(T.generate_tokens(io.StringIO(src).readline))
    except (T.TokenError, SyntaxError, ValueError) as e:
        return "outside", "cpython-rejects:" + type(e).__name__
    out = []
    depth = 0
    for t in raw:
        if t.type in _THEIRS_DROP:
            continue
        name = T.tok_name[t.type]
        if name == "ERRORTOKEN":
            return "outside", "cpython-errortoken"
        if name in ("FSTRING_START", "FSTRING_MIDDLE", "FSTRING_END") and not allow_fstrings:
            return "outside", "f-string"
        if name == "NUMBER":
            # the tokenize module is more lenient than the compiler's tokenizer ('01', '0_7'): keep real literals only
            try:
                with warnings.catch_warnings():
                    warnings.simplefilter("ignore")
                    ast.literal_eval(t.string)
            except (SyntaxError, ValueError):
                return "outside", "lenient-number"
        if name == "NAME" and not t.string.isascii() and not t.string.isidentifier():
            # the tokenize module hands out any run of non-ASCII characters as a NAME ('€', a byte-order mark): not a name
            return "outside", "lenient-name"
        if name == "OP":
            if t.string == "<>":
                return "outside", "lenient-<>"
            if t.string in _OPEN:
                depth += 1
            elif t.string in _CLOSE:
                depth -= 1
                if depth < 0:
                    return "outside", "lenient-stray-closer"
            if not t.string.isascii() or any(c in t.string for c in "\r$?`!") and t.string != "!=":
                return "outside", "lenient-op"
        out.append((name, t.string, t.start, t.end))
    return "ok", out


def our_tokens(src: str) -> tuple[str, Any]:
    st, toks = run.our_tokens(src)
    if st != "ok":
        return st, toks
    out = []
    for t in toks:
        if t.type in _OURS_DROP:
            continue
        out.append((t.type.name, t.string, t.start, t.end))
    return "ok", out


def compare(src: str, allow_fstrings: bool = False) -> tuple | None:
    st, theirs = cpython_tokens(src, allow_fstrings)
    if st != "ok":
        return ("outside", theirs)
    st, ours = our_tokens(src)
    if st != "ok":
        return ("diff", f"TOKENS ours-raises {type(ours).__name__}", run.exc_brief(ours))
    n = min(len(ours), len(theirs))
    lines = src.split("\n")
    for i in range(n):
        a, b = ours[i], theirs[i]
        if a[0] != b[0]:
            return ("diff", f"TOKENS type {a[0]} vs {b[0]}", {"index": i, "ours": a, "cpython": b})
        if a[0] in _VALUED and a != b:
            if a[:3] == b[:3] and b[2][0] != b[3][0] and a[3][0] == b[3][0] and not (b[1] + lines[b[3][0] - 1]).isascii():
                # CPython 3.12.1's tokenize module gets the end column of a token that spans lines wrong when the token (or
                # its last line) holds non-ASCII text: a byte offset, or a column short by the multi-byte characters of
                # earlier lines (test_pegen.py: 26 for a token whose last line is 24 blanks and three quotes). Not compared.
                continue
            what = "string" if a[1] != b[1] else ("start" if a[2] != b[2] else "end")
            return ("diff", f"TOKENS {a[0]} {what}", {"index": i, "ours": a, "cpython": b})
    if len(ours) != len(theirs):
        extra = (ours if len(ours) > n else theirs)[n]
        return ("diff", f"TOKENS count ({'extra' if len(ours) > n else 'missing'} {extra[0]})", {"ours": ours[-3:], "cpython": theirs[-3:]})
    return None
