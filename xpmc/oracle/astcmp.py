"""Complete structural comparison of two ast trees (DESIGN §2.4).

Returns None if equal, else (path, ours, theirs) for the first difference; `sig(path)` wild-cards list
indices so that one root cause yields one signature.
"""
from __future__ import annotations

import ast
import re
from typing import Any

_MISSING = object()
POS = ("lineno", "col_offset", "end_lineno", "end_col_offset")


def _const(v: Any) -> tuple[str, str]:
    return (type(v).__name__, repr(v))


def diff(a: Any, b: Any, positions: bool = True, path: str = "") -> tuple[str, str, str] | None:
    """a = implementation tree, b = reference tree."""
    if isinstance(b, ast.AST):
        if type(a) is not type(b):
            return (path + ":type", type(a).__name__, type(b).__name__)
        for f in b._fields:
            va = getattr(a, f, _MISSING)
            vb = getattr(b, f, _MISSING)
            if va is _MISSING or vb is _MISSING:
                if va is _MISSING and vb is _MISSING:
                    continue
                return (f"{path}.{f}:missing", "absent" if va is _MISSING else "present", "absent" if vb is _MISSING else "present")
            d = diff(va, vb, positions, f"{path}.{f}" if path else f)
            if d:
                return d
        if positions and b._attributes:
            for attr in POS:
                if attr in b._attributes:
                    va = getattr(a, attr, _MISSING)
                    vb = getattr(b, attr, _MISSING)
                    if va != vb or type(va) is not type(vb):
                        return (f"{path}:{type(b).__name__}@{attr}", repr(va) if va is not _MISSING else "absent", repr(vb) if vb is not _MISSING else "absent")
        return None
    if isinstance(b, list):
        if not isinstance(a, list):
            return (path + ":list", type(a).__name__, "list")
        if len(a) != len(b):
            return (path + ":len", str(len(a)), str(len(b)))
        for i, (x, y) in enumerate(zip(a, b)):
            d = diff(x, y, positions, f"{path}[{i}]")
            if d:
                return d
        return None
    if isinstance(a, (ast.AST, list)):
        return (path + ":type", type(a).__name__, type(b).__name__)
    if _const(a) != _const(b):
        return (path + ":value", repr(a)[:80], repr(b)[:80])
    return None


_IDX = re.compile(r"\[\d+\]")


def sig(path: str) -> str:
    return _IDX.sub("[*]", path)
