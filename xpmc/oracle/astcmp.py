"""Complete structural comparison of two ast trees (DESIGN §2.4).

Returns None if equal, else (path, ours, theirs) for the first difference; `sig(path)` wild-cards list
indices so that one root cause yields one signature.
"""
from __future__ import annotations

import ast
import re
from typing import Any

_MISSING = object()
POS = ("lineno", "col_offset", "end_lineno", "end_col_offset")


def _const(v: Any) -> tuple[str, str]:
    return (type(v).__name__, repr(v))


def diff_src(a: Any, b: Any, src: str) -> tuple[str, str, str] | None:
    """Like diff(), but knows the source: a column that differs from CPython's *only* because CPython counts
    UTF-8 bytes and the implementation counts characters is reported separately, as path 'UTF8COL', and only if
    nothing else differs (so everything else stays fully compared on non-ASCII sources)."""
    if src.isascii():
        return diff(a, b)
    soft: list[tuple[str, str, str]] = []
    d = diff(a, b, True, "", (src.split("\n"), soft))
    if d is None and soft:
        return ("UTF8COL", soft[0][1], soft[0][2])
    return d


def diff(a: Any, b: Any, positions: bool = True, path: str = "", u8: Any = None) -> tuple[str, str, str] | None:
    """a = implementation tree, b = reference tree."""
    if isinstance(b, ast.AST):
        if type(a) is not type(b):
            return (path + ":type", type(a).__name__, type(b).__name__)
        for f in b._fields:
            va = getattr(a, f, _MISSING)
            vb = getattr(b, f, _MISSING)
            if va is _MISSING or vb is _MISSING:
                if va is _MISSING and vb is _MISSING:
                    continue
                return (f"{path}.{f}:missing", "absent" if va is _MISSING else "present", "absent" if vb is _MISSING else "present")
            d = diff(va, vb, positions, f"{path}.{f}" if path else f, u8)
            if d:
                return d
        if positions and b._attributes:
            for attr in POS:
                if attr in b._attributes:
                    va = getattr(a, attr, _MISSING)
                    vb = getattr(b, attr, _MISSING)
                    if va != vb or type(va) is not type(vb):
                        if u8 is not None and attr.endswith("col_offset") and isinstance(va, int) and isinstance(vb, int):
                            ln = b.lineno if attr == "col_offset" else b.end_lineno
                            if 1 <= ln <= len(u8[0]):
                                chars = len(u8[0][ln - 1].encode("utf-8")[:vb].decode("utf-8", "ignore"))
                                if chars == va:
                                    u8[1].append((f"{path}:{type(b).__name__}@{attr}", repr(va), repr(vb)))
                                    continue
                        return (f"{path}:{type(b).__name__}@{attr}", repr(va) if va is not _MISSING else "absent", repr(vb) if vb is not _MISSING else "absent")
        return None
    if isinstance(b, list):
        if not isinstance(a, list):
            return (path + ":list", type(a).__name__, "list")
        if len(a) != len(b):
            return (path + ":len", str(len(a)), str(len(b)))
        for i, (x, y) in enumerate(zip(a, b)):
            d = diff(x, y, positions, f"{path}[{i}]", u8)
            if d:
                return d
        return None
    if isinstance(a, (ast.AST, list)):
        return (path + ":type", type(a).__name__, type(b).__name__)
    if _const(a) != _const(b):
        return (path + ":value", repr(a)[:80], repr(b)[:80])
    return None


_IDX = re.compile(r"\[\d+\]")


def sig(path: str) -> str:
    return _IDX.sub("[*]", path)
