"""C08 oracle: the tokens tile the source (pure function of tokens and text).

Line/column arithmetic splits lines exactly as io.StringIO.readline does: at '\n' only.
Returns None or (signature, detail).
"""
from __future__ import annotations

import re
from typing import Any

from peg_parser.tokenize import Token

SIG = {
    Token.NAME, Token.NUMBER, Token.STRING, Token.OP, Token.FSTRING_START, Token.FSTRING_MIDDLE, Token.FSTRING_END,
    Token.ERRORTOKEN, Token.SEARCH_PATH, Token.MACRO_PARAM,
}
_GAP_PIECE = re.compile(r"\\\r?\n|[ \t\f]+")


def line_starts(src: str) -> list[int]:
    starts = [0]
    i = src.find("\n")
    while i != -1:
        starts.append(i + 1)
        i = src.find("\n", i + 1)
    return starts


def check(src: str, toks: list[Any]) -> tuple[str, Any] | None:
    starts = line_starts(src)
    nlines = len(starts)
    n = len(src)

    def off(pos: tuple[int, int]) -> int | None:
        ln, col = pos
        if ln < 1 or col < 0:
            return None
        if ln > nlines:
            # one past the last line (ENDMARKER / DEDENT at EOF when the text ends with a newline is line nlines already)
            return n if ln == nlines + 1 and col == 0 else None
        return starts[ln - 1] + col

    if not toks:
        return ("TILING no-tokens", None)
    if toks[-1].type is not Token.ENDMARKER:
        return ("TILING last-token-not-ENDMARKER", toks[-1].type.name)
    prev_end = 0
    indents = dedents = 0
    pending_sig = False
    for i, t in enumerate(toks):
        ty = t.type
        if ty is Token.ENDMARKER and i != len(toks) - 1:
            return ("TILING ENDMARKER-not-last", i)
        s, e = off(t.start), off(t.end)
        if s is None or e is None:
            return (f"TILING bad-coordinates {ty.name}", (t.start, t.end))
        if e < s:
            return (f"TILING end-before-start {ty.name}", (t.start, t.end))
        sc, ec = min(s, n), min(e, n)
        if src[sc:ec] != t.string:
            # the implicit NEWLINE at EOF is the only token allowed to claim a column past the text
            return (f"TILING text-mismatch {ty.name}", {"token": t.string[:40], "slice": src[sc:ec][:40], "at": (t.start, t.end)})
        if (s > n or e > n) and not (ty is Token.NEWLINE and t.string == "" and s == n):
            if not (ty in (Token.ENDMARKER, Token.DEDENT) and s == e):
                return (f"TILING beyond-text {ty.name}", (t.start, t.end))
        if sc < prev_end:
            return (f"TILING overlap-or-out-of-order {ty.name}", {"at": (t.start, t.end), "prev_end": prev_end})
        gap = src[prev_end:sc]
        if gap:
            g = _gap_ok(src, prev_end, sc)
            if g is not None:
                return (f"TILING uncovered {g}", {"gap": gap[:40], "before": ty.name, "at": t.start})
        prev_end = max(prev_end, ec)
        if ty is Token.INDENT:
            indents += 1
        elif ty is Token.DEDENT:
            dedents += 1
        elif ty is Token.NEWLINE:
            # a NEWLINE on a line without significant token is not excluded by the property's statement
            # (it speaks about lines that hold one); C09 compares NEWLINE placement with CPython.
            pending_sig = False
        elif ty in SIG:
            pending_sig = True
    if pending_sig:
        return ("TILING logical-line-without-NEWLINE", None)
    if prev_end < n:
        g = _gap_ok(src, prev_end, n)
        if g is not None:
            return (f"TILING uncovered-tail {g}", {"gap": src[prev_end:n][:40]})
    if indents != dedents:
        return ("TILING INDENT/DEDENT-unbalanced", (indents, dedents))
    return None


def _gap_ok(src: str, a: int, b: int) -> str | None:
    """None if src[a:b] is made of backslash-newlines and line-leading whitespace only."""
    i = a
    while i < b:
        m = _GAP_PIECE.match(src, i, b)
        if not m:
            return "non-blank"
        if not m.group().startswith("\\"):
            # a whitespace run must start at the beginning of a line
            if i != 0 and src[i - 1] != "\n":
                return "inner-whitespace"
        i = m.end()
    return None
