"""C04 oracle: compile() accepts the tree structurally; independent structural walk (fields, lists, spans)."""
from __future__ import annotations

import ast
import re
import warnings
from typing import Any

from ..explore.asdl import BUILTIN, fields

_MISSING = object()
_NUM = re.compile(r"\d+")


def compile_check(tree: Any, mode: str) -> tuple[str, str] | None:
    try:
        with warnings.catch_warnings():
            warnings.simplefilter("ignore")
            compile(tree, "<verif>", mode)
        return None
    except (TypeError, ValueError) as e:
        return ("COMPILE-MALFORMED " + type(e).__name__ + ": " + _NUM.sub("#", str(e))[:90], str(e))
    except SyntaxError as e:
        # semantic rejection: the written-out Python must be rejected too
        try:
            text = ast.unparse(tree)
        except Exception as ue:  # noqa: BLE001
            return ("UNPARSE-FAILED " + type(ue).__name__, str(ue))
        try:
            with warnings.catch_warnings():
                warnings.simplefilter("ignore")
                compile(text, "<verif-unparsed>", mode)
        except SyntaxError:
            return None
        except (ValueError, MemoryError, RecursionError):
            return None
        return ("COMPILE-REJECTS-TREE-ONLY SyntaxError: " + _NUM.sub("#", str(e.msg))[:80], text[:200])
    except (RecursionError, MemoryError, OverflowError):
        return None


def _sort_ok(v: Any, ty: str) -> bool:
    if ty == "identifier":
        return isinstance(v, str)
    if ty == "int":
        return isinstance(v, int)
    if ty == "string":
        return isinstance(v, str)
    if ty == "constant":
        return True
    return isinstance(v, getattr(ast, ty))


def walk_check(tree: Any, src: str) -> tuple[str, Any] | None:
    lines = src.split("\n")
    nlines = len(lines)
    blen = [len(ln) if ln.isascii() else len(ln.encode("utf-8", "surrogatepass")) for ln in lines]  # AST columns are UTF-8 bytes
    stack = [(tree, "")]
    while stack:
        node, path = stack.pop()
        cls = type(node)
        try:
            fl = fields(cls)
        except AssertionError:
            fl = ()
        for name, ty, q in fl:
            v = getattr(node, name, _MISSING)
            p = f"{cls.__name__}.{name}"
            if v is _MISSING:
                if q == "" and ty not in ("expr_context",):
                    return (f"WALK missing-field {p}", path)
                continue
            if q == "*":
                if not isinstance(v, list):
                    return (f"WALK not-a-list {p} ({type(v).__name__})", path)
                for i, x in enumerate(v):
                    if x is None and (p in ("Dict.keys", "arguments.kw_defaults")):
                        continue
                    if not _sort_ok(x, ty):
                        return (f"WALK wrong-element-type {p} ({type(x).__name__})", path)
                    if isinstance(x, ast.AST):
                        stack.append((x, f"{path}.{name}[{i}]"))
            elif v is None:
                if q == "" and ty != "constant":
                    return (f"WALK None-in-required-field {p}", path)
            else:
                if not _sort_ok(v, ty):
                    return (f"WALK wrong-type {p} ({type(v).__name__})", path)
                if isinstance(v, ast.AST):
                    stack.append((v, f"{path}.{name}"))
        if "lineno" in cls._attributes:
            pos = [getattr(node, a, None) for a in ("lineno", "col_offset", "end_lineno", "end_col_offset")]
            if any(not isinstance(x, int) or isinstance(x, bool) for x in pos):
                return (f"WALK incomplete-span {cls.__name__}", {"path": path, "pos": pos})
            l0, c0, l1, c1 = pos
            if (l1, c1) < (l0, c0):
                return (f"WALK span-end-before-start {cls.__name__}", {"path": path, "pos": pos})
            if not (1 <= l0 <= nlines and 1 <= l1 <= nlines):
                return (f"WALK span-line-outside-source {cls.__name__}", {"path": path, "pos": pos, "nlines": nlines})
            # a column may point just past the line's newline character (the end of a token that ends the line)
            nl0, nl1 = int(l0 < nlines), int(l1 < nlines)
            if not (0 <= c0 <= blen[l0 - 1] + nl0 and 0 <= c1 <= blen[l1 - 1] + nl1):
                return (f"WALK span-column-outside-line {cls.__name__}", {"path": path, "pos": pos})
    return None
