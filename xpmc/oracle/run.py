"""Run the implementation / CPython on one text and classify the outcome."""
from __future__ import annotations

import ast
import io
import re
import tokenize as py_tokenize
import warnings
from typing import Any

from peg_parser.parser import XonshParser
from peg_parser.tokenize import TokenError, generate_tokens

warnings.simplefilter("ignore")

TREE, SYNTAX, TOKEN, OTHER, OUTSIDE = "tree", "syntax", "token", "other", "outside"


def ours(src: str, mode: str = "exec", **opts: Any) -> tuple[str, Any]:
    """('tree', node) | ('syntax', exc) | ('token', exc) | ('other', exc)"""
    try:
        tree = XonshParser.parse_string(src, mode=mode, **opts)
    except SyntaxError as e:
        return SYNTAX, e
    except TokenError as e:
        return TOKEN, e
    except RecursionError as e:
        return OTHER, e
    except Exception as e:  # noqa: BLE001
        return OTHER, e
    return TREE, tree


def cpy(src: str, mode: str = "exec") -> tuple[str, Any]:
    """('tree', node) | ('syntax', exc) | ('outside', exc) — warnings silenced."""
    try:
        with warnings.catch_warnings():
            warnings.simplefilter("ignore")
            return TREE, ast.parse(src, mode=mode)
    except SyntaxError as e:
        return SYNTAX, e
    except (ValueError, MemoryError, RecursionError, OverflowError) as e:
        return OUTSIDE, e


def our_tokens(src: str) -> tuple[str, Any]:
    """('ok', [tokens]) | ('syntax'|'token'|'other', exc)"""
    try:
        return "ok", list(generate_tokens(src))
    except SyntaxError as e:
        return SYNTAX, e
    except TokenError as e:
        return TOKEN, e
    except Exception as e:  # noqa: BLE001
        return OTHER, e


def cpy_tokens(src: str) -> tuple[str, Any]:
    try:
        with warnings.catch_warnings():
            warnings.simplefilter("ignore")
            return "ok", list(py_tokenize.generate_tokens(io.StringIO(src).readline))
    except (py_tokenize.TokenError, SyntaxError, ValueError) as e:
        return "error", e


# ----------------------------------------------------------------------------- domain filters
_FPREFIX = re.compile(r"(?i)(?<![A-Za-z0-9_])(?:f|fr|rf)['\"]")
_PPREFIX = re.compile(r"(?i)(?<![A-Za-z0-9_])(?:p|pr|rp|pf|fp)['\"]")
_XONSH_CHARS = re.compile(r"[$?`]|&&|\|\||@\(|!(?!=)")


def has_fstring(src: str) -> bool:
    """Conservative: an f-prefixed quote anywhere in the text (even inside another literal)."""
    return bool(_FPREFIX.search(src))


_LONE_CR = re.compile(r"\r(?!\n)")


def python_lexicon(src: str) -> bool:
    """C02's domain, decided on characters (conservative: '$' inside a string literal excludes the text).

    A carriage return that is not part of CRLF is not a Python lexeme or line terminator in the sense of C01/C02
    (which name LF and CRLF): CPython's compiler front end rewrites it to a newline before tokenizing, its tokenize
    module does not; such texts are outside the domain (C03 and C08 still cover them)."""
    return not _XONSH_CHARS.search(src) and not _PPREFIX.search(src) and not _LONE_CR.search(src)


def c01_domain(src: str) -> bool:
    return "@(" not in src and "\x00" not in src and "﻿" not in src and not has_fstring(src)


def exc_brief(e: BaseException) -> str:
    return f"{type(e).__name__}: {e}"[:200]
