"""C13: canonical fingerprint of the library's process-global mutable state (DESIGN §2.4).

Walks everything reachable from the four peg_parser modules that can carry state from one parse to the next:
module globals, class attributes, function defaults / keyword defaults / closure cells / function attributes,
instance dicts of module-level objects (the Load/Store/Del singletons), containers, and the cache dictionary of
functools.lru_cache wrappers (the dict among gc.get_referents(wrapper) that is not the wrapper's own __dict__).
Nothing address-dependent enters the canonical form; temporaries created during the walk are kept alive until it
ends so that id() reuse cannot fake 'already seen'.
"""
from __future__ import annotations

import ast
import enum
import functools
import gc
import hashlib
import re
import types
from typing import Any

MODULES = ("peg_parser.tokenize", "peg_parser.tokenizer", "peg_parser.subheader", "peg_parser.parser")
_SCALARS = (str, bytes, int, float, complex, bool, type(None), type(Ellipsis))


def fingerprint() -> tuple[str, int]:
    """(sha1 of the canonical form, number of entries)"""
    import sys

    keep: list[Any] = []  # keeps temporaries alive during the walk
    seen: dict[int, int] = {}
    out: list[str] = []

    def emit(path: str, what: str) -> None:
        out.append(path + "=" + what)

    def walk(obj: Any, path: str, depth: int = 0) -> None:
        if isinstance(obj, _SCALARS):
            emit(path, type(obj).__name__ + ":" + repr(obj)[:200])
            return
        if isinstance(obj, enum.Enum):
            emit(path, "enum:" + str(obj))
            return
        oid = id(obj)
        if oid in seen:
            emit(path, f"ref#{seen[oid]}")
            return
        seen[oid] = len(seen)
        keep.append(obj)
        if depth > 12:
            emit(path, "deep:" + type(obj).__name__)
            return
        if isinstance(obj, re.Pattern):
            emit(path, "re:" + obj.pattern[:120] + f":{obj.flags}")
            return
        if isinstance(obj, ast.AST):
            emit(path, "ast:" + type(obj).__name__)
            for k, v in sorted(vars(obj).items()):
                walk(v, f"{path}.{k}", depth + 1)
            return
        if isinstance(obj, dict):
            emit(path, f"dict[{len(obj)}]")
            items = []
            for k, v in obj.items():
                items.append((_key(k), k, v))
            for ks, k, v in sorted(items, key=lambda t: t[0]):
                walk(v, f"{path}[{ks}]", depth + 1)
            return
        if isinstance(obj, (list, tuple)):
            emit(path, f"{type(obj).__name__}[{len(obj)}]")
            for i, v in enumerate(obj):
                walk(v, f"{path}[{i}]", depth + 1)
            return
        if isinstance(obj, (set, frozenset)):
            emit(path, f"{type(obj).__name__}[{len(obj)}]:" + ",".join(sorted(_key(x) for x in obj))[:400])
            return
        if isinstance(obj, functools._lru_cache_wrapper):
            info = obj.cache_info()
            emit(path, f"lru_cache(size={info.currsize},max={info.maxsize})")
            own = getattr(obj, "__dict__", None)
            for ref in gc.get_referents(obj):
                if isinstance(ref, dict) and ref is not own:
                    keys = sorted(_key(k) for k in ref)
                    emit(path + ".cache", f"keys[{len(keys)}]:" + "|".join(keys)[:2000])
                    # cached values can be mutable (e.g. AST nodes): their content is state
                    for k, link in sorted(((_key(k), v) for k, v in ref.items()), key=lambda t: t[0]):
                        val = link[3] if isinstance(link, list) and len(link) == 4 else link
                        walk(val, f"{path}.cache[{k}]", depth + 1)
            walk(getattr(obj, "__wrapped__", None), path + ".__wrapped__", depth + 1)
            return
        if isinstance(obj, (types.FunctionType,)):
            if (obj.__module__ or "").split(".")[0] not in ("peg_parser",):
                emit(path, "function:" + getattr(obj, "__qualname__", "?"))
                return
            emit(path, "function:" + obj.__qualname__)
            if obj.__defaults__:
                walk(obj.__defaults__, path + ".__defaults__", depth + 1)
            if obj.__kwdefaults__:
                walk(obj.__kwdefaults__, path + ".__kwdefaults__", depth + 1)
            if obj.__closure__:
                for i, cell in enumerate(obj.__closure__):
                    try:
                        walk(cell.cell_contents, f"{path}.<cell{i}>", depth + 1)
                    except ValueError:
                        emit(f"{path}.<cell{i}>", "empty")
            if obj.__dict__:
                walk({k: v for k, v in obj.__dict__.items() if k != "__wrapped__"}, path + ".__dict__", depth + 1)
            return
        if isinstance(obj, (staticmethod, classmethod)):
            walk(obj.__func__, path + ".__func__", depth + 1)
            return
        if isinstance(obj, property):
            emit(path, "property")
            return
        if isinstance(obj, type):
            if (obj.__module__ or "").split(".")[0] != "peg_parser":
                emit(path, "class:" + obj.__module__ + "." + obj.__qualname__)
                return
            emit(path, "class:" + obj.__qualname__)
            for k, v in sorted(vars(obj).items()):
                if k in ("__dict__", "__weakref__", "__doc__", "__module__", "__qualname__", "__annotations__", "__firstlineno__",
                         "__static_attributes__", "__parameters__", "__orig_bases__", "_member_map_", "_value2member_map_",
                         "_member_names_", "_hashable_values_", "_unhashable_values_"):
                    continue
                walk(v, f"{path}.{k}", depth + 1)
            return
        if isinstance(obj, types.ModuleType):
            emit(path, "module:" + obj.__name__)
            return
        d = getattr(obj, "__dict__", None)
        if isinstance(d, dict) and d:
            emit(path, "instance:" + type(obj).__qualname__)
            walk(d, path + ".__dict__", depth + 1)
            return
        emit(path, "other:" + type(obj).__qualname__)

    for name in MODULES:
        mod = sys.modules.get(name)
        if mod is None:
            continue
        for k, v in sorted(vars(mod).items()):
            if k.startswith("__") and k.endswith("__"):
                continue
            walk(v, f"{name}.{k}")
    blob = "\n".join(out)
    return hashlib.sha1(blob.encode("utf-8", "backslashreplace")).hexdigest(), len(out)


def dump() -> list[str]:
    """The canonical entries themselves (for explaining a difference)."""
    import sys

    # re-run the walk collecting lines: small duplication kept deliberately simple
    lines: list[str] = []
    h, n = fingerprint()
    lines.append(f"{h} {n}")
    return lines


def _key(k: Any) -> str:
    if isinstance(k, _SCALARS):
        return type(k).__name__ + ":" + repr(k)[:120]
    if isinstance(k, tuple):
        return "(" + ",".join(_key(x) for x in k) + ")"
    if isinstance(k, enum.Enum):
        return str(k)
    if isinstance(k, type):
        return "class:" + k.__qualname__
    if hasattr(k, "string") and hasattr(k, "start"):
        return "tok:" + repr(tuple(k))[:160]
    return "obj:" + type(k).__qualname__
