"""C03 monitor: outcome class of tokenizing / parsing one text."""
from __future__ import annotations

import ast
from typing import Any

from . import run


def where(e: BaseException) -> str:
    tb = e.__traceback__
    name = "?"
    while tb is not None:
        name = tb.tb_frame.f_code.co_name
        tb = tb.tb_next
    return name


def check_text(src: str, acc: Any, case: Any, modes: tuple[str, ...] = ("exec", "eval"), tokens: bool = True) -> None:
    if tokens:
        st, val = run.our_tokens(src)
        acc.ran()
        acc.count("tok:" + st)
        if st == run.OTHER:
            acc.violation(f"TOKENIZE-EXC {type(val).__name__}@{where(val)}", case, run.exc_brief(val), text=src)
    for mode in modes:
        st, val = run.ours(src, mode)
        acc.ran()
        acc.count(f"{mode}:{st}")
        if st == run.OTHER:
            acc.violation(f"PARSE-EXC {mode} {type(val).__name__}@{where(val)}", case, run.exc_brief(val), text=src)
        elif st == run.TREE:
            want = ast.Module if mode == "exec" else ast.Expression
            if not isinstance(val, want):
                acc.violation(f"PARSE-RESULT {mode} {type(val).__name__}", case, repr(val)[:100], text=src)
