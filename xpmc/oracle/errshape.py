"""C11 oracle: a raised SyntaxError/IndentationError is well-formed and points into the source."""
from __future__ import annotations

from typing import Any


def check(e: SyntaxError, src: str) -> tuple[str, Any] | None:
    lines = src.split("\n")  # readline semantics; the last element is the (possibly empty) unterminated tail
    nlines = len(lines) if lines[-1] != "" else len(lines) - 1
    kind = type(e).__name__
    info = {"msg": e.msg, "filename": e.filename, "lineno": e.lineno, "offset": e.offset, "end_lineno": e.end_lineno,
            "end_offset": e.end_offset, "text": e.text}
    if not isinstance(e.msg, str) or not e.msg.strip():
        return (f"ERRSHAPE {kind} empty-message", info)
    if e.filename is None:
        return (f"ERRSHAPE {kind} no-filename", info)
    if not isinstance(e.lineno, int) or not (1 <= e.lineno <= nlines + 1):
        return (f"ERRSHAPE {kind} lineno-outside-source", info)
    line = lines[e.lineno - 1] if e.lineno <= len(lines) else ""
    # the '\r' of a CRLF terminator is not line content; a '\r' on the unterminated last line is
    bare = line[:-1] if line.endswith("\r") and e.lineno < len(lines) else line
    if not isinstance(e.offset, int) or not (1 <= e.offset <= len(bare) + 1):
        return (f"ERRSHAPE {kind} offset-outside-line", info)
    if not isinstance(e.end_lineno, int) or not isinstance(e.end_offset, int):
        return (f"ERRSHAPE {kind} no-end-position", info)
    if (e.end_lineno, e.end_offset) < (e.lineno, e.offset):
        return (f"ERRSHAPE {kind} end-before-start", info)
    if not isinstance(e.text, str):
        return (f"ERRSHAPE {kind} no-text", info)
    if not e.text.startswith(bare):
        return (f"ERRSHAPE {kind} text-is-not-the-source-line", info)
    return None
