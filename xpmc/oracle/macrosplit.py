"""C07 reference model: bracket/string/comment-aware scanner that cuts macro arguments out of the SOURCE TEXT."""
from __future__ import annotations

import re

_STR = re.compile(
    r"(?i)(?:[rbufp]{1,3})?(?:'''(?:[^'\\]|\\.|'(?!''))*'''|\"\"\"(?:[^\"\\]|\\.|\"(?!\"\"))*\"\"\"|'(?:[^'\\\n]|\\.)*'|\"(?:[^\"\\\n]|\\.)*\")",
    re.S,
)
_PAIR = {"(": ")", "[": "]", "{": "}"}
_CLOSE = set(")]}")


class Unsupported(Exception):
    pass


def split_call_macro(text: str, start: int) -> tuple[list[str], int]:
    """`start` = index just after '!('.  Returns (argument slices, index of the balancing ')').

    Arguments are the slices between top-level commas, whitespace included; brackets and string literals protect
    commas; a '#' comment runs to the end of its line; whitespace-only slices are not arguments."""
    i, n = start, len(text)
    stack: list[str] = []
    cuts = [start]
    while i < n:
        c = text[i]
        if c in "'\"" or (c.isalpha() and (i == start or not (text[i - 1].isalnum() or text[i - 1] == "_"))):
            m = _STR.match(text, i)
            if m:
                i = m.end()
                continue
            if c in "'\"":
                raise Unsupported("unterminated string")
        if c == "#":
            j = text.find("\n", i)
            if j == -1:
                raise Unsupported("comment swallows the rest")
            i = j
            continue
        if c == "\\":
            if text.startswith("\\\n", i):  # a line continuation is text like any other
                i += 2
                continue
            raise Unsupported("backslash outside a string")
        if c in _PAIR:
            stack.append(_PAIR[c])
        elif c in _CLOSE:
            if not stack:
                if c != ")":
                    raise Unsupported("unbalanced closer")
                slices = [text[a:b] for a, b in zip(cuts, cuts[1:] + [i])]
                slices = [s[1:] if k else s for k, s in enumerate(slices)]  # drop the comma that starts each later slice
                return slices, i
            if stack[-1] != c:
                raise Unsupported("mismatched closer")
            stack.pop()
        elif c == "," and not stack:
            cuts.append(i)
        i += 1
    raise Unsupported("unclosed")


def arguments(slices: list[str]) -> list[str]:
    """Slices that are arguments: whitespace-only slices are none (f!() has no arguments, a trailing comma adds none)."""
    return [s for s in slices if s.strip()]


def balanced(text: str) -> bool:
    """Brackets balanced, strings terminated, no backslash outside strings (with-macro body domain)."""
    try:
        _, j = split_call_macro(text + ")", 0)
    except Unsupported:
        return False
    return j == len(text)
