"""C06 reference model: an independent word splitter for subprocess command text (DESIGN §4a).

`expected(opener, inner)` works on the raw text strictly between a subprocess opener and its closer and returns
(method name, [argument, ...]) where an argument is a list of pieces:
  ("text", s) | ("env", NAME) | ("envexpr", dump) | ("py*", dump) | ("inject*", [args]) | ("nested", method, [args]) | ("search", tok)
`observed(call)` flattens the implementation's Call node into the same shape.
"""
from __future__ import annotations

import ast
import re
from typing import Any

METHOD = {"$(": "subproc_captured", "$[": "subproc_uncaptured", "!(": "subproc_captured_object", "![": "subproc_captured_hiddenobject"}
CLOSER = {"$(": ")", "$[": "]", "!(": ")", "![": "]", "@(": ")", "@$(": ")", "${": "}"}
_OPENERS = ["@$(", "$(", "$[", "!(", "![", "@(", "${"]
_STR = re.compile(r"(?i)(?:[rbuf]{1,2})?(?:'''(?:[^'\\]|\\.|'(?!''))*'''|\"\"\"(?:[^\"\\]|\\.|\"(?!\"\"))*\"\"\"|'(?:[^'\\\n]|\\.)*'|\"(?:[^\"\\\n]|\\.)*\")", re.S)
_SEARCH = re.compile(r"(?:[rgpf]+|@\w*)?`[^\n`\\]*(?:\\.[^\n`\\]*)*`")
_ENV = re.compile(r"\$(\w+)")
_WS = re.compile(r"(?:[ \t\f]|\r?\n)+")  # inside the brackets a newline is just whitespace


class Unsupported(Exception):
    """The text is outside the splitter's domain (unbalanced bracket, unterminated string)."""


def _balanced(text: str, i: int, opener: str) -> int:
    """Index just past the closer matching the opener that ends at i (i = first char inside)."""
    stack = [CLOSER[opener]]
    n = len(text)
    while i < n:
        c = text[i]
        m = _STR.match(text, i)
        if m and (c in "'\"" or (i == 0 or not (text[i - 1].isalnum() or text[i - 1] == "_"))):
            i = m.end()
            continue
        if c in "'\"":
            raise Unsupported("unterminated string")
        if c == "#":
            raise Unsupported("comment")
        for op in _OPENERS:
            if text.startswith(op, i):
                stack.append(CLOSER[op])
                i += len(op)
                break
        else:
            if c in "([{":
                stack.append({"(": ")", "[": "]", "{": "}"}[c])
            elif c in ")]}":
                if not stack or stack[-1] != c:
                    raise Unsupported("unbalanced")
                stack.pop()
                if not stack:
                    return i + 1
            i += 1
    raise Unsupported("unclosed")


def pieces(text: str) -> list[tuple]:
    out: list[tuple] = []
    i, n = 0, len(text)
    word = ""

    def flush() -> None:
        nonlocal word
        if word:
            out.append(("text", word))
            word = ""

    while i < n:
        c = text[i]
        m = _WS.match(text, i)
        if m:
            flush()
            out.append(("ws", m.group()))
            i = m.end()
            continue
        if c == "\r":
            raise Unsupported("lone carriage return")
        at_boundary = not word or not (word[-1].isalnum() or word[-1] == "_")
        hit = False
        for op in _OPENERS:
            if text.startswith(op, i):
                j = _balanced(text, i + len(op), op)
                inner = text[i + len(op) : j - 1]
                flush()
                if op == "${":
                    out.append(("envexpr", _dump(inner)))
                elif op == "@(":
                    out.append(("py*", _dump(inner)))
                elif op == "@$(":
                    out.append(("inject*", arguments(inner)))
                else:
                    out.append(("nested", METHOD[op], arguments(inner)))
                i = j
                hit = True
                break
        if hit:
            continue
        m = _ENV.match(text, i)
        if m:
            flush()
            out.append(("env", m.group(1)))
            i = m.end()
            continue
        if at_boundary or c == "`":
            m = _SEARCH.match(text, i)
            if m:
                flush()
                out.append(("search", m.group()))
                i = m.end()
                continue
        if c in "'\"" or (at_boundary and _STR.match(text, i)):
            m = _STR.match(text, i)
            if not m:
                raise Unsupported("unterminated string")
            word += m.group()  # quoted strings are passed verbatim, quotes included
            i = m.end()
            continue
        if c in "`$#!{}()[]\\":
            raise Unsupported(f"character {c!r} outside the word alphabet")
        word += c
        i += 1
    flush()
    return out


def arguments(text: str) -> list[list[tuple]]:
    args: list[list[tuple]] = []
    cur: list[tuple] = []
    for p in pieces(text):
        if p[0] == "ws":
            if cur:
                args.append(cur)
                cur = []
        else:
            cur.append(p)
    if cur:
        args.append(cur)
    return [_merge(a) for a in args]


def _merge(arg: list[tuple]) -> list[tuple]:
    out: list[tuple] = []
    for p in arg:
        if p[0] == "text" and out and out[-1][0] == "text":
            out[-1] = ("text", out[-1][1] + p[1])
        else:
            out.append(p)
    return out


def _dump(src: str) -> str:
    try:
        return ast.dump(ast.parse(src.strip(), mode="eval").body)
    except SyntaxError:
        raise Unsupported("python expression inside @()/${} is not plain Python") from None


def expected(opener: str, inner: str) -> tuple[str, list[list[tuple]]]:
    return METHOD[opener], arguments(inner)


# ------------------------------------------------------------------ flattening the implementation's tree
class Malformed(Exception):
    pass


def _xonsh_attr(func: Any) -> str | None:
    if isinstance(func, ast.Attribute) and isinstance(func.value, ast.Name) and func.value.id == "__xonsh__":
        return func.attr
    return None


def flatten(node: Any) -> list[tuple]:
    if isinstance(node, ast.Constant) and isinstance(node.value, str):
        return [("text", node.value)]
    if isinstance(node, ast.BinOp) and isinstance(node.op, ast.Add):
        return flatten(node.left) + flatten(node.right)
    if isinstance(node, ast.Tuple):
        out: list[tuple] = []
        for e in node.elts:
            out += flatten(e)
        return out
    if isinstance(node, ast.Starred):
        v = node.value
        if isinstance(v, ast.Call):
            name = _xonsh_attr(v.func)
            if name == "list_of_strs_or_callables" and len(v.args) == 1 and not v.keywords:
                return [("py*", ast.dump(v.args[0]))]
            if name == "subproc_captured_inject" and not v.keywords:
                return [("inject*", [_merge(flatten(a)) for a in v.args])]
        raise Malformed("Starred of " + ast.dump(v)[:80])
    if isinstance(node, ast.Subscript):
        v = node.value
        if isinstance(v, ast.Attribute) and _xonsh_attr(v) == "env":
            s = node.slice
            if isinstance(s, ast.Constant) and isinstance(s.value, str):
                return [("env", s.value)]
            if isinstance(s, ast.Call) and isinstance(s.func, ast.Name) and s.func.id == "str" and len(s.args) == 1:
                return [("envexpr", ast.dump(s.args[0]))]
        raise Malformed("Subscript " + ast.dump(node)[:80])
    if isinstance(node, ast.Call):
        name = _xonsh_attr(node.func)
        if name in METHOD.values() and not node.keywords:
            return [("nested", name, [_merge(flatten(a)) for a in node.args])]
        if name == "pathsearch" and len(node.args) == 1 and isinstance(node.args[0], ast.Constant):
            return [("search", node.args[0].value)]
        raise Malformed("Call " + ast.dump(node.func)[:80])
    raise Malformed(type(node).__name__)


def observed(call: Any) -> tuple[str, list[list[tuple]]]:
    if not isinstance(call, ast.Call):
        raise Malformed("not a Call: " + type(call).__name__)
    name = _xonsh_attr(call.func)
    if name is None or call.keywords:
        raise Malformed("func " + ast.dump(call.func)[:80])
    return name, [_merge(flatten(a)) for a in call.args]
