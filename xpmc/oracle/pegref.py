"""C17 reference model: an independent, memo-free PEG interpreter over pegen.grammar objects (DESIGN §4a).

Semantics (the documented pegen semantics):
  Rhs   first alternative that succeeds; a cut reached in a failed alternative fails the whole rule
  Alt   items left to right; value = action evaluated with the named items bound, else the single value-bearing
        item's value, else the list of value-bearing items' values (lookaheads and cuts bear no value)
  e?    value or None, never fails;  e* / e+  greedy lists;  s.e+  list of e's (separators dropped)
  &e !e never consume;  &&'t' raises if absent;  (..) group = nested Rhs
  left-recursive SCCs of the first-graph use seed growing at the alphabetically least rule lying on every cycle;
  other members of the cycle are evaluated without memo; a leader's result per position is kept.
A success with a falsy value (pegen's convention forbids it), a repetition of a nullable item and left recursion
behind a nullable prefix put the (grammar, input) pair outside the domain: OutsideDomain is raised, never guessed.
"""
from __future__ import annotations

from typing import Any

from pegen.grammar import (
    Alt, Cut, Forced, Gather, Grammar, Group, NamedItem, NameLeaf, NegativeLookahead, Opt, PositiveLookahead, Repeat0, Repeat1, Rhs,
    StringLeaf,
)


class OutsideDomain(Exception):
    pass


class ForcedFailure(Exception):
    pass


class _Fail:
    def __repr__(self) -> str:
        return "FAIL"


FAIL = _Fail()
_NOVALUE = object()


# ------------------------------------------------------------------ static analysis (my own, not pegen's)
def nullable_expr(g: Grammar, node: Any, seen: frozenset = frozenset()) -> bool:
    if isinstance(node, NamedItem):
        return nullable_expr(g, node.item, seen)
    if isinstance(node, StringLeaf):
        return False
    if isinstance(node, NameLeaf):
        if node.value in g.rules:
            if node.value in seen:
                return False
            return nullable_expr(g, g.rules[node.value].rhs, seen | {node.value})
        return False
    if isinstance(node, (Opt, Repeat0, PositiveLookahead, NegativeLookahead, Cut, Forced)):
        return not isinstance(node, Forced)
    if isinstance(node, (Repeat1, Gather)):
        return nullable_expr(g, node.node, seen)
    if isinstance(node, Group):
        return nullable_expr(g, node.rhs, seen)
    if isinstance(node, Rhs):
        return any(nullable_expr(g, a, seen) for a in node.alts)
    if isinstance(node, Alt):
        return all(nullable_expr(g, i, seen) for i in node.items)
    raise TypeError(node)


def first_refs(g: Grammar, node: Any) -> set[str]:
    """Rules that may be invoked at the initial position of node."""
    if isinstance(node, NamedItem):
        return first_refs(g, node.item)
    if isinstance(node, StringLeaf):
        return set()
    if isinstance(node, NameLeaf):
        return {node.value} if node.value in g.rules else set()
    if isinstance(node, (Opt, Repeat0, Repeat1, PositiveLookahead, NegativeLookahead, Forced)):
        return first_refs(g, node.node)
    if isinstance(node, Gather):
        return first_refs(g, node.node)
    if isinstance(node, Cut):
        return set()
    if isinstance(node, Group):
        return first_refs(g, node.rhs)
    if isinstance(node, Rhs):
        out: set[str] = set()
        for a in node.alts:
            out |= first_refs(g, a)
        return out
    if isinstance(node, Alt):
        out = set()
        for it in node.items:
            out |= first_refs(g, it)
            if not nullable_expr(g, it):
                break
        return out
    raise TypeError(node)


def left_recursion(g: Grammar) -> tuple[dict[str, str], bool]:
    """({rule: its leader} for rules on a left-recursive cycle, hidden) — hidden = a cycle passes through a nullable
    prefix or a lookahead (outside the domain)."""
    graph = {name: first_refs(g, r.rhs) for name, r in g.rules.items()}
    strict = {name: _strict_first(g, r.rhs) for name, r in g.rules.items()}
    names = sorted(graph)

    def reach(a: str, gr: dict[str, set[str]]) -> set[str]:
        out: set[str] = set()
        stack = list(gr[a])
        while stack:
            x = stack.pop()
            if x not in out:
                out.add(x)
                stack += gr.get(x, ())
        return out

    r_all = {n: reach(n, graph) for n in names}
    r_strict = {n: reach(n, strict) for n in names}
    hidden = any((n in r_all[n]) != (n in r_strict[n]) for n in names)
    leaders: dict[str, str] = {}
    done: set[str] = set()
    for n in names:
        if n in done or n not in r_all[n]:
            continue
        scc = {m for m in names if m in r_all[n] and n in r_all[m]} | {n}
        done |= scc
        # rules lying on every simple cycle of the SCC
        cycles = _simple_cycles(graph, scc)
        common = set(scc)
        for c in cycles:
            common &= set(c)
        if not common:
            raise OutsideDomain("no rule lies on every cycle")
        lead = min(common)
        for m in scc:
            leaders[m] = lead
    return leaders, hidden


def _strict_first(g: Grammar, node: Any) -> set[str]:
    """Like first_refs but only through the literally first item (no nullable prefixes, no lookaheads)."""
    if isinstance(node, NamedItem):
        return _strict_first(g, node.item)
    if isinstance(node, NameLeaf):
        return {node.value} if node.value in g.rules else set()
    if isinstance(node, (Repeat1,)):
        return _strict_first(g, node.node)
    if isinstance(node, Gather):
        return _strict_first(g, node.node)
    if isinstance(node, Group):
        return _strict_first(g, node.rhs)
    if isinstance(node, Rhs):
        out: set[str] = set()
        for a in node.alts:
            out |= _strict_first(g, a)
        return out
    if isinstance(node, Alt):
        return _strict_first(g, node.items[0]) if node.items else set()
    return set()


def _simple_cycles(graph: dict[str, set[str]], scc: set[str]) -> list[list[str]]:
    out: list[list[str]] = []

    def dfs(start: str, cur: str, path: list[str]) -> None:
        for nxt in sorted(graph[cur] & scc):
            if nxt == start:
                out.append(list(path))
            elif nxt not in path and nxt > start:
                dfs(start, nxt, path + [nxt])

    for s in sorted(scc):
        dfs(s, s, [s])
    return out


def repeats_nullable(g: Grammar, node: Any, seen: frozenset = frozenset()) -> bool:
    """Some repetition (e*, e+, s.e+) has a nullable element: the loop would not terminate."""
    if isinstance(node, NamedItem):
        return repeats_nullable(g, node.item, seen)
    if isinstance(node, (StringLeaf, Cut)):
        return False
    if isinstance(node, NameLeaf):
        return False
    if isinstance(node, (Repeat0, Repeat1)):
        return nullable_expr(g, node.node) or repeats_nullable(g, node.node, seen)
    if isinstance(node, Gather):
        return (nullable_expr(g, node.node) and nullable_expr(g, node.separator)) or repeats_nullable(g, node.node, seen)
    if isinstance(node, (Opt, PositiveLookahead, NegativeLookahead, Forced)):
        return repeats_nullable(g, node.node, seen)
    if isinstance(node, Group):
        return repeats_nullable(g, node.rhs, seen)
    if isinstance(node, Rhs):
        return any(repeats_nullable(g, a, seen) for a in node.alts)
    if isinstance(node, Alt):
        return any(repeats_nullable(g, i, seen) for i in node.items)
    raise TypeError(node)


def may_be_falsy(g: Grammar, node: Any, seen: frozenset = frozenset()) -> bool:
    """Can this expression succeed with a falsy value ([] / None)?  (pegen's convention forbids it for alternatives)"""
    if isinstance(node, NamedItem):
        return may_be_falsy(g, node.item, seen)
    if isinstance(node, StringLeaf):
        return False
    if isinstance(node, NameLeaf):
        if node.value in g.rules:
            if node.value in seen:
                return False
            return may_be_falsy(g, g.rules[node.value].rhs, seen | {node.value})
        return False
    if isinstance(node, (Opt, Repeat0)):
        return True
    if isinstance(node, (Repeat1, Gather, Forced)):
        return False
    if isinstance(node, Group):
        return may_be_falsy(g, node.rhs, seen)
    if isinstance(node, Rhs):
        return any(may_be_falsy(g, a, seen) for a in node.alts)
    if isinstance(node, Alt):
        if node.action:
            return False  # my actions build non-empty tuples
        vals = [i for i in node.items if not isinstance(i.item, (Cut, PositiveLookahead, NegativeLookahead))]
        if len(vals) == 0:
            return True  # the value is the empty list
        if len(vals) == 1:
            return may_be_falsy(g, vals[0], seen)
        return False
    raise TypeError(node)


def _all_rhs(node: Any):
    """Every Rhs (rule bodies and groups, at any depth)."""
    if isinstance(node, Rhs):
        yield node
        for a in node.alts:
            for i in a.items:
                yield from _all_rhs(i.item)
    elif isinstance(node, Group):
        yield from _all_rhs(node.rhs)
    elif isinstance(node, (Opt, Repeat0, Repeat1, PositiveLookahead, NegativeLookahead, Forced)):
        yield from _all_rhs(node.node)
    elif isinstance(node, Gather):
        yield from _all_rhs(node.node)
        yield from _all_rhs(node.separator)


def well_formed(g: Grammar) -> str | None:
    """None, or the reason the grammar is outside C17's quantifier."""
    for r in g.rules.values():
        if repeats_nullable(g, r.rhs):
            return "repetition of a nullable item"
    for r in g.rules.values():
        for rhs in _all_rhs(r.rhs):
            if any(may_be_falsy(g, a) for a in rhs.alts):
                return "an alternative can succeed with a falsy value"
    try:
        _, hidden = left_recursion(g)
    except OutsideDomain as e:
        return str(e)
    if hidden:
        return "left recursion behind a nullable prefix"
    return None


# ------------------------------------------------------------------ interpreter
class Interp:
    def __init__(self, g: Grammar, tokens: list[Any], keywords: set[str], invalid: bool = False):
        self.invalid = invalid  # pegen's call_invalid_rules flag
        self.g = g
        self.toks = tokens  # objects with .type.name and .string
        self.kw = keywords
        cached = getattr(g, "_xpmc_leaders", None)
        if cached is None:
            cached, _ = left_recursion(g)
            g._xpmc_leaders = cached  # per-grammar analysis, done once
        self.leaders = cached
        self.seed: dict[tuple[str, int], tuple[Any, int]] = {}
        self.growing: set[tuple[str, int]] = set()
        self.steps = 0

    # returns (value | FAIL, new position)
    def rule(self, name: str, pos: int) -> tuple[Any, int]:
        self.steps += 1
        if self.steps > 200_000:
            raise OutsideDomain("step budget")
        r = self.g.rules[name]
        lead = self.leaders.get(name)
        if lead == name:
            key = (name, pos)
            if key in self.seed:
                return self.seed[key]
            self.seed[key] = (FAIL, pos)
            last: tuple[Any, int] = (FAIL, pos)
            while True:
                v, p = self.rhs(r.rhs, pos)
                if v is FAIL or p <= last[1]:
                    break
                last = (v, p)
                self.seed[key] = last
            self.seed[key] = last
            return last
        if name.endswith("without_invalid"):
            saved, self.invalid = self.invalid, False
            try:
                return self.rhs(r.rhs, pos)
            finally:
                self.invalid = saved
        return self.rhs(r.rhs, pos)

    def rhs(self, rhs: Rhs, pos: int) -> tuple[Any, int]:
        for alt in rhs.alts:
            v, p, cut = self.alt(alt, pos)
            if v is not FAIL:
                if not v:
                    raise OutsideDomain("an alternative succeeds with a falsy value")
                return v, p
            if cut:
                return FAIL, pos
        return FAIL, pos

    def alt(self, alt: Alt, pos: int) -> tuple[Any, int, bool]:
        diagnostic = refers_to_invalid(alt)
        if diagnostic and not self.invalid:
            return FAIL, pos, False  # an alternative that refers to an invalid_ rule is only tried in the second pass
        env: dict[str, Any] = {}
        vals: list[Any] = []
        cut = False
        p = pos
        for it in alt.items:
            if isinstance(it.item, Cut):
                cut = True
                continue
            v, p2 = self.item(it.item, p)
            if v is FAIL:
                return FAIL, pos, cut
            p = p2
            if v is _NOVALUE:
                continue
            # pegen's convention: an item whose value is falsy stops the alternative (only Opt / e* are tuples there)
            if not isinstance(it.item, (Opt, Repeat0)) and not v:
                raise OutsideDomain("an item succeeds with a falsy value")
            vals.append(v)
            if it.name:
                env[it.name] = v
        if diagnostic and not alt.action:
            return FAIL, pos, True  # pegen: such an alternative is expected to raise; if it matches, the rule fails there
        if alt.action:
            value = eval(alt.action, {"__builtins__": {}}, env)  # noqa: S307 (actions are my own tuple expressions)
        elif len(vals) == 1:
            value = vals[0]
        else:
            value = vals
        return value, p, cut

    def item(self, node: Any, pos: int) -> tuple[Any, int]:
        if isinstance(node, StringLeaf):
            want = node.value[1:-1]
            if pos < len(self.toks) and self.toks[pos].string == want:
                return self.toks[pos].string, pos + 1
            return FAIL, pos
        if isinstance(node, NameLeaf):
            n = node.value
            if n in self.g.rules:
                return self.rule(n, pos)
            if pos >= len(self.toks):
                return FAIL, pos
            t = self.toks[pos]
            if n == "NAME":
                ok = t.type.name == "NAME" and t.string not in self.kw
            else:
                ok = t.type.name == n
            if not ok:
                return FAIL, pos
            return (t.string if t.string else "<" + n + ">"), pos + 1
        if isinstance(node, Group):
            return self.rhs(node.rhs, pos)
        if isinstance(node, Opt):
            v, p = self.item(node.node, pos)
            return (None, pos) if v is FAIL else (v, p)
        if isinstance(node, (Repeat0, Repeat1)):
            out = []
            p = pos
            while True:
                v, p2 = self.item(node.node, p)
                if v is FAIL:
                    break
                if p2 == p:
                    raise OutsideDomain("loop over an empty match")
                if not v:
                    raise OutsideDomain("a repeated element succeeds with a falsy value")
                out.append(v)
                p = p2
            if isinstance(node, Repeat1) and not out:
                return FAIL, pos
            return out, p
        if isinstance(node, Gather):
            v, p = self.item(node.node, pos)
            if v is FAIL:
                return FAIL, pos
            if not v:
                raise OutsideDomain("a gathered element succeeds with a falsy value")
            out = [v]
            while True:
                s, p2 = self.item(node.separator, p)
                if s is FAIL:
                    break
                v, p3 = self.item(node.node, p2)
                if v is FAIL:
                    break
                if not v:
                    raise OutsideDomain("a gathered element succeeds with a falsy value")
                if p3 == p:
                    raise OutsideDomain("loop over an empty match")
                out.append(v)
                p = p3
            return out, p
        if isinstance(node, PositiveLookahead):
            v, _ = self.item(node.node, pos)
            return (FAIL, pos) if v is FAIL else (_NOVALUE, pos)
        if isinstance(node, NegativeLookahead):
            v, _ = self.item(node.node, pos)
            return (_NOVALUE, pos) if v is FAIL else (FAIL, pos)
        if isinstance(node, Forced):
            v, p = self.item(node.node, pos)
            if v is FAIL:
                raise ForcedFailure(str(node.node))
            return v, p
        raise TypeError(node)


def grammar_keywords(g: Grammar) -> tuple[set[str], set[str]]:
    """(hard, soft) keywords of a grammar, read off its string literals: 'word' is a keyword, "word" a soft keyword."""
    from pegen.grammar import StringLeaf

    hard: set[str] = set()
    soft: set[str] = set()

    def walk(node: Any) -> None:
        if isinstance(node, StringLeaf):
            v = node.value
            if v[1:-1].isidentifier():
                (hard if v[0] == "'" else soft).add(v[1:-1])
            return
        if hasattr(node, "separator"):  # a Gather iterates over its element only
            walk(node.separator)
        if hasattr(node, "__iter__") and not isinstance(node, str):
            for ch in node:
                if isinstance(ch, list):
                    for x in ch:
                        walk(x)
                else:
                    walk(ch)

    for r in g.rules.values():
        walk(r)
    return hard, soft


def refers_to_invalid(node: Any) -> bool:
    """pegen's InvalidNodeVisitor: a rule named invalid* referred to by the alternative - directly, inside a group, an
    optional, a lookahead, a gather or a forced item (its visit_Repeat is misnamed: repetitions are not looked into)."""
    if isinstance(node, NameLeaf):
        return node.value.startswith("invalid")
    if isinstance(node, Alt):
        return any(refers_to_invalid(i.item) for i in node.items)
    if isinstance(node, Rhs):
        return any(refers_to_invalid(a) for a in node.alts)
    if isinstance(node, Group):
        return refers_to_invalid(node.rhs)
    if isinstance(node, (Opt, PositiveLookahead, NegativeLookahead, Gather, Forced)):
        return refers_to_invalid(node.node)
    return False


def run(g: Grammar, rule: str, tokens: list[Any], keywords: set[str], invalid: bool = False) -> tuple[str, Any, int]:
    """('ok', value, end) | ('fail', None, 0) | ('forced', None, 0)"""
    it = Interp(g, tokens, keywords, invalid)
    try:
        v, p = it.rule(rule, 0)
    except ForcedFailure:
        return "forced", None, 0
    if v is FAIL:
        return "fail", None, 0
    if not v:
        raise OutsideDomain("the rule succeeds with a falsy value")
    return "ok", v, p
