"""bin/check <ID> [--tier quick|thorough] [--replay FILE]  — single entry point (DESIGN §1)."""
from __future__ import annotations

import argparse
import hashlib
import importlib
import json
import os
import sys
import time
from typing import Any

from .core import env


def _jsonable(x: Any) -> Any:
    if isinstance(x, (str, int, float, bool)) or x is None:
        return x
    if isinstance(x, dict):
        return {str(k): _jsonable(v) for k, v in x.items()}
    if isinstance(x, (list, tuple, set, frozenset)):
        return [_jsonable(v) for v in x]
    return repr(x)


def write_replay(prop: str, signature: str, example: dict[str, Any], engine: str) -> str:
    body = {
        "property": prop,
        "engine": engine,
        "signature": signature,
        "case": _jsonable(example["case"]),
        "detail": _jsonable(example.get("detail")),
    }
    blob = json.dumps(body, sort_keys=True, ensure_ascii=True)
    h = hashlib.sha1(blob.encode()).hexdigest()[:12]
    d = os.path.join(env.VERIF, "replays")
    os.makedirs(d, exist_ok=True)
    path = os.path.join(d, f"{prop}-{h}.json")
    with open(path, "w", encoding="utf-8") as f:
        json.dump(body, f, indent=1, sort_keys=True, ensure_ascii=True)
        f.write("\n")
    return path


def do_replay(mod: Any, path: str) -> int:
    from .core.acc import Acc

    with open(path, encoding="utf-8") as f:
        body = json.load(f)
    case = body["case"]
    obs = []
    for _ in range(2):
        acc = Acc(mod.ID, 0)
        mod.check_case(case, acc)
        sigs = sorted(acc.violations) + sorted("KNOWN:" + k for k in acc.known)
        obs.append(sigs)
    if obs[0] != obs[1]:
        print(f"REPLAY-NONDETERMINISTIC property={mod.ID} {obs}")
        return 2
    new = [s for s in obs[0] if not s.startswith("KNOWN:")]
    if new:
        print(f"VIOLATION property={mod.ID} replay={path}")
        for s in new:
            print(f"  signature: {s}")
        return 1
    print(f"replay of {path}: property {mod.ID} holds on this case ({obs[0] or 'no violation'})")
    return 0


def main(argv: list[str] | None = None) -> int:
    ap = argparse.ArgumentParser(prog="check")
    ap.add_argument("prop")
    ap.add_argument("--tier", default=os.environ.get("VERIF_TIER", "quick"), choices=["quick", "thorough"])
    ap.add_argument("--replay")
    ap.add_argument("--no-evidence", action="store_true")
    ap.add_argument("--only", help="comma-separated explorer names (debugging; evidence is not written)")
    args = ap.parse_args(argv)
    seed = int(os.environ.get("VERIF_SEED", "0") or 0)
    env.setup()
    from .core import kf, pool
    from .core.acc import Acc

    mod = importlib.import_module(f"xpmc.props.{args.prop.lower()}")
    if args.replay:
        return do_replay(mod, args.replay)

    t0 = time.time()
    only = set(args.only.split(",")) if args.only else None
    units = mod.units(args.tier)
    if only:
        units = [u for u in units if u[0] in only]
        args.no_evidence = True
    deadline = getattr(mod, "CASE_DEADLINE", 6.0)
    print(f"[{mod.ID}] tier={args.tier} seed={seed} units={len(units)} workers={env.nworkers()}", file=sys.stderr)
    try:
        acc = pool.run(mod, units, seed=seed, deadline=deadline)
    except pool.HarnessError as e:
        print(f"HARNESS-ERROR property={mod.ID}\n{e}", file=sys.stderr)
        return 2

    # confirm hang candidates alone, with a long deadline, before calling them hangs
    hung = 0
    import itertools

    hang_cases = []
    for uid, idx in acc.notes.get("hang_units", [])[:8]:
        c = next(itertools.islice(mod.cases(units[uid]), idx, None), None)
        if c is not None and c not in hang_cases:
            hang_cases.append(c)
    aborted = bool(acc.notes.get("aborted_after_hangs"))
    for case in hang_cases:
        def _one(c: Any = case) -> Acc:
            a = Acc(mod.ID, seed)
            mod.check_case(c, a)
            return a

        st, val = pool.run_alone(_one, (), getattr(mod, "CONFIRM_DEADLINE", 30.0))
        if st == "ok":
            acc.merge(val)
            acc.cases += 1
        else:
            hung += 1
            acc.violation("HANG" if st == "timeout" else f"WORKER-DIED({val})", case)
            if hung >= 2:
                break  # two confirmed hangs are enough to report; each costs the full confirmation deadline
    acc.notes["hangs_confirmed"] = hung
    if aborted and not hung:
        print(f"HARNESS-ERROR property={mod.ID}: exploration aborted after repeated deadline kills but no case hangs when run alone", file=sys.stderr)
        return 2

    extra = mod.finalize(acc, args.tier) if hasattr(mod, "finalize") else {}

    # ---- report
    rc = 0
    for ent in kf.all_entries():
        if ent.get("property") != mod.ID or ent.get("status") != "known":
            continue
        n = acc.known.get(ent["id"], 0)
        still = "n/a"
        if "exemplar" in ent:
            a = Acc(mod.ID, seed)
            try:
                mod.check_case(ent["exemplar"], a)
                still = "yes" if a.known.get(ent["id"]) else "no"
            except Exception as e:  # noqa: BLE001
                still = f"error:{type(e).__name__}"
        print(f"KNOWN-FINDING: property={mod.ID} {ent['id']} {ent['what']} ({n} cases this run; exemplar still fails: {still})")
    nviol = 0
    for sig, ent in sorted(acc.violations.items(), key=lambda kv: -kv[1]["count"]):
        nviol += 1
        ex = ent["examples"][0]
        path = write_replay(mod.ID, sig, ex, getattr(mod, "ENGINE", "xpmc"))
        print(f"VIOLATION property={mod.ID} replay={path}")
        print(f"  signature: {sig}   ({ent['count']} cases)", file=sys.stderr)
        print(f"  example: {json.dumps(_jsonable(ex['case']))[:300]}", file=sys.stderr)
        if ex.get("detail") is not None:
            print(f"  detail: {json.dumps(_jsonable(ex['detail']))[:400]}", file=sys.stderr)
        rc = 1
    wall = time.time() - t0

    if not args.no_evidence:
        cov = {
            "states": max(1, acc.states or acc.cases),
            "transitions": max(1, acc.transitions or acc.cases),
            "traces_validated_against_impl": acc.evaluations,
            "evaluations": acc.evaluations,
            "cases_enumerated": acc.cases,
            "distinct_nontrivial": acc.distinct_nontrivial(),
            "rule": getattr(mod, "RULE", ""),
            "exhaustive": bool(extra.pop("exhaustive", True)) and hung == 0 and not aborted,
            "bound": mod.BOUND[args.tier] if hasattr(mod, "BOUND") else "",
            "breakdown": dict(sorted(acc.counts.items())),
            "known_finding_hits": dict(acc.known),
            "new_violation_signatures": len(acc.violations),
            "new_violation_cases": acc.violation_total,
            "hangs_confirmed": hung,
            "samples": [_jsonable(s) for s in acc.samples[:8]] or ["<none>"],
        }
        cov.update(_jsonable(extra))
        ev = {
            "property_id": mod.ID,
            "tier": args.tier,
            "seed": seed,
            "level": "model_checking",
            "coverage": cov,
            "assumptions": list(getattr(mod, "ASSUMPTIONS", [])),
            "wall_s": round(wall, 2),
            "violations": acc.violation_total,
        }
        d = os.path.join(env.VERIF, "evidence")
        os.makedirs(d, exist_ok=True)
        tmp = os.path.join(d, f".{mod.ID}.json.tmp")
        with open(tmp, "w", encoding="utf-8") as f:
            json.dump(ev, f, indent=1, ensure_ascii=True)
            f.write("\n")
        os.replace(tmp, os.path.join(d, f"{mod.ID}.json"))
    print(
        f"[{mod.ID}] {acc.cases} cases, {acc.evaluations} executions, states={acc.states or acc.cases} "
        f"transitions={acc.transitions or acc.cases} nontrivial={acc.distinct_nontrivial()} "
        f"known-hits={sum(acc.known.values())} new-violations={acc.violation_total} wall={wall:.1f}s",
        file=sys.stderr,
    )
    if os.environ.get("XPMC_BREAKDOWN"):
        for k, v in sorted(acc.counts.items()):
            print(f"    {k}: {v}", file=sys.stderr)
    return rc


if __name__ == "__main__":
    sys.exit(main())
