"""Child interpreter for C12: started under a specific locale / UTF-8-mode environment.

Reads JSON lines {"id": n, "text": str} on stdin; for each writes the content as UTF-8 bytes to a file, runs
XonshParser.parse_file on it and XonshParser.parse_string(text, mode='exec'), and prints one ASCII-safe JSON line
{"id": n, "file": outcome, "string": outcome}.  First line printed: the environment it observes.
"""
import ast
import json
import locale
import os
import sys
import tempfile
from pathlib import Path

sys.path.insert(0, sys.argv[1])
from peg_parser.parser import XonshParser  # noqa: E402
from peg_parser.tokenize import TokenError  # noqa: E402


def outcome(fn):
    try:
        tree = fn()
    except SyntaxError as e:
        return ["SyntaxError", type(e).__name__, e.msg, e.lineno, e.offset, e.end_lineno, e.end_offset, e.text]
    except TokenError as e:
        return ["TokenError", repr(e.args)]
    except Exception as e:  # noqa: BLE001
        return ["other", type(e).__name__, str(e)[:160]]
    return ["tree", ast.dump(tree, include_attributes=True)]


def main():
    out = sys.stdout
    out.write(json.dumps({"env": {"preferred": locale.getpreferredencoding(False), "utf8_mode": sys.flags.utf8_mode,
                                  "fs": sys.getfilesystemencoding(), "LC_ALL": os.environ.get("LC_ALL"),
                                  "peg_parser": os.path.dirname(XonshParser.__module__ and sys.modules["peg_parser"].__file__)}}) + "\n")
    out.flush()
    d = tempfile.mkdtemp(prefix="xpmc-c12-", dir="/dev/shm" if os.path.isdir("/dev/shm") else None)
    path = Path(d) / "src.py"
    try:
        for line in sys.stdin.buffer:
            req = json.loads(line.decode("ascii"))
            text = req["text"]
            with open(path, "wb") as f:
                f.write(text.encode("utf-8", "surrogatepass"))
            res = {"id": req["id"], "file": outcome(lambda: XonshParser.parse_file(path)),
                   "string": outcome(lambda: XonshParser.parse_string(text, mode="exec"))}
            out.write(json.dumps(res, ensure_ascii=True) + "\n")
            out.flush()
    finally:
        import shutil

        shutil.rmtree(d, ignore_errors=True)


main()
