"""C06 — subprocess args follow source word boundaries and map to the right runtime call."""
from __future__ import annotations

import ast
import itertools
from typing import Any, Iterator

from ..oracle import run, wordsplit

ID = "C06"
ENGINE = "words^<=n x positions x bracket forms, word pairs, piece algebra; oracle = independent word splitter on the raw command text"
RULE = (
    "every word over the 22-character shell-word alphabet (a x 1 _ - . / = : , + % ^ ~ * < > | & ; @ e-acute) up to the "
    "length bound in first / middle / last position of the four bracket forms with spacing variants, also with the next word on a new line in the column where the previous one ended; every ordered pair "
    "of short words; every sequence of pieces from {word, quoted strings, $NAME, ${e}, @(e), @$(c), nested $( ) $[ ] !( ) "
    "![ ], search path, multi-line string, multi-line nested form} joined with or without a blank; a dictionary of "
    "realistic words that contain a reserved word as sub-token. Oracle: an independent scanner splits the raw text at "
    "whitespace outside quotes/brackets; the Call's args, flattened (Add chains, tuples, starred), must give the same "
    "ordered piece lists and func must be the method of the bracket form. Non-trivial = the input tokenizes and the "
    "splitter is defined on it (distinct texts)."
)
BOUND = {
    "quick": "words^<=3 (first/middle/last, 4 forms, 3 spacings for $( ); pairs of words <=2 x <=1; piece sequences <=3",
    "thorough": "words^<=4; pairs of words <=2 x <=2; piece sequences <=4",
}
ASSUMPTIONS = ["the splitter of DESIGN.md section 4a; quoted strings are passed verbatim with their quotes (tests/data/exprs/subproc.py)"]

W = "ax1_-./=:,+%^~*<>|&;@é"
OPENERS = ["$(", "$[", "!(", "!["]
PIECES = [
    "ab", "-x", "1", "=", "a.b/c", "--opt=1", "'q s'", '"q"', "r'\\d'", "$NAME", "${'k'}", "@(e)", "@(a, b)", "@$(c d)", "$(c)", "!(c d)",
    "$[c]", "![c]", "`g*`", "'''m\nl'''", "$(c\n)", "x,", "2>&1", "é",
]
DICTIONARY = [
    "--in-place", "--with-ssl", "a-if", "x.is", "not-x", "for.txt", "a=None", "--lambda", "in", "echo-or", "is", "if", "and", "import", "class",
    "del/", "-True", "yield.py", "./configure", "..", "...", "1e5x", "0x1f", "1_0", "1.", ".5", "1j", "0b2", "1__0", "1e+", "a1", "1a", "0_1", "0755", "007", "05", "0_8", "00_1", "001", "09.5", "0777j", "00", "08e1", "2024-01-05", "0o9", "0x", "1e", "0b",
    "<=", ">>=", "->", ":=", "==", "!=", "<<", "**", "//", "a!=b",
    # non-ASCII letters, one per Unicode normalisation class: stable, NFKC-unstable, NFC-unstable (singleton), astral, CJK, case-odd; combining marks are not letters and stay outside
    "caf\u00e9", "\u00b5", "\ufb01le.txt", "\u212b", "\U0001d41ab", "\u4e2d\u6587", "\u00df", "\u0130x", "\u2460", "x\u00b2",
]


def units(tier: str) -> list[tuple]:
    n = 3 if tier == "quick" else 4
    us: list[tuple] = [("w", "", 1)]
    for c1 in W:
        for c2 in W:
            us.append(("w", c1 + c2, n))
    for c1 in W:
        us.append(("pairs", c1, tier))
    npieces = 3 if tier == "quick" else 4
    for i in range(len(PIECES)):
        us.append(("alg", i, npieces))
    us.append(("dict",))
    return us


def _words(prefix: str, n: int) -> Iterator[str]:
    def rec(s: str) -> Iterator[str]:
        if s:
            yield s
        if len(s) >= n:
            return
        for c in W:
            yield from rec(s + c)

    yield from rec(prefix)


def _case(op: str, inner: str) -> dict:
    return {"src": op + inner + wordsplit.CLOSER[op] + "\n", "op": op, "inner": inner}


def cases(unit: tuple) -> Iterator[dict]:
    k = unit[0]
    if k == "w":
        for w in _words(unit[1], unit[2]):
            for op in OPENERS:
                yield _case(op, w)
                yield _case(op, w + " b")
                yield _case(op, "b " + w)
                yield _case(op, "b " + w + " c")
            # the next word on a new line, starting exactly in the column where this one ended / elsewhere
            for op in OPENERS[:2]:
                yield _case(op, w + "\n" + " " * (len(op) + len(w)) + "b")
                yield _case(op, "c " + w + "\n" + " " * (len(op) + 2 + len(w)) + "b\n" + " " * (len(op) + 2 + len(w) + 1) + "d")
                yield _case(op, w + "\n  b")
            yield _case("$(", " " + w + " ")
            yield _case("$(", "b  " + w + "\t-c")
            yield _case("![", w + "  " + w)
    elif k == "pairs":
        c1, tier = unit[1], unit[2]
        firsts = [c1] + [c1 + c for c in W]
        seconds = list(W) + ([a + b for a in W for b in W] if tier == "thorough" else [])
        for a in firsts:
            for b in seconds:
                yield _case("$(", a + " " + b)
                yield _case("![", a + b)
    elif k == "alg":
        first, n = PIECES[unit[1]], unit[2]
        yield _case("$(", first)
        for m in range(1, n):
            for rest in itertools.product(PIECES, repeat=m):
                for joins in itertools.product(("", " "), repeat=m):
                    inner = first + "".join(j + p for j, p in zip(joins, rest))
                    yield _case("$(", inner)
                    if m == 1:
                        for op in OPENERS[1:]:
                            yield _case(op, inner)
    elif k == "dict":
        for w in DICTIONARY:
            for op in OPENERS:
                yield _case(op, w)
                yield _case(op, "sed " + w + " f")
                yield _case(op, w + " -x")


def run_unit(unit: tuple, acc: Any) -> None:
    for case in acc.watch(cases(unit)):
        check_case(case, acc)


def check_case(case: dict, acc: Any) -> None:
    src = case["src"]
    try:
        method, exp = wordsplit.expected(case["op"], case["inner"])
    except wordsplit.Unsupported as e:
        acc.count("outside:" + str(e).split(" ")[0])
        return
    if not exp:
        acc.count("outside:empty-command")
        return
    if any(a == [("text", w)] for a in exp for w in _KEYWORDS):
        acc.count("outside:reserved-word")  # the quantifier removes Python reserved words (as whole words)
        return
    st, toks = run.our_tokens(src)
    acc.nontrivial(src)
    if st != "ok":
        # every text the independent splitter takes apart is made of complete words, strings and brackets: it tokenizes
        acc.count("REJECTED")
        acc.violation(f"REJECTED by the tokenizer {type(toks).__name__} {_kw(case['inner'])}", case, run.exc_brief(toks), text=src)
        return
    st, tree = run.ours(src, "exec")
    acc.ran()
    if st != run.TREE:
        acc.count("REJECTED")
        acc.violation(f"REJECTED {type(tree).__name__} {_kw(case['inner'])}", case, run.exc_brief(tree), text=src)
        return
    body = tree.body
    if len(body) != 1 or not isinstance(body[0], ast.Expr):
        acc.violation("SHAPE not-a-single-expression-statement", case, ast.dump(tree)[:200], text=src)
        return
    try:
        got_method, got = wordsplit.observed(body[0].value)
    except wordsplit.Malformed as e:
        acc.violation("SHAPE " + str(e).split(" ")[0], case, str(e), text=src)
        return
    if got_method != method:
        acc.violation(f"METHOD {case['op']}", case, {"got": got_method, "want": method}, text=src)
        return
    if got == exp:
        acc.count("equal")
        return
    if len(got) != len(exp):
        sig = "ARGS argument-count " + ("more" if len(got) > len(exp) else "fewer")
    else:
        i = next(i for i in range(len(exp)) if got[i] != exp[i])
        if [p[0] for p in got[i]] != [p[0] for p in exp[i]]:
            sig = "ARGS piece-kinds"
        else:
            j = next(j for j in range(len(exp[i])) if got[i][j] != exp[i][j])
            sig = "ARGS piece-value " + exp[i][j][0]
    acc.count("ARGS-DIFF")
    acc.violation(sig, case, {"got": got, "want": exp}, text=src)


_KEYWORDS = set(__import__("keyword").kwlist)


def _kw(inner: str) -> str:
    import re

    return "word-contains-reserved-word" if any(t in _KEYWORDS for t in re.findall(r"[A-Za-z_]+", inner)) else "plain"
