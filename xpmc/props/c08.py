"""C08 — the tokenizer is lossless: tokens tile the source with exact, ordered positions."""
from __future__ import annotations

from typing import Any

from ..explore import charspace, corpus, edits, tokspace
from ..oracle import run, tiling
from . import c10

ID = "C08"
ENGINE = "E-CHR + E-LINE-style multi-line strings + char-E-EDIT + corpus, tiling oracle on the raw token stream"
RULE = (
    "every string over the 19-character alphabet (nasty + form feed) up to the length bound, bare and in f-string / "
    "triple-quoted / bracket carriers; every string over the two f-string alphabets inside f-string carriers (double-quoted, brace-open, triple-quoted); C10's structured f-string products, adjacency forms and nested f-strings; every E-TOK xonsh sequence; every character edit of the corpus; every corpus file; every module of the interpreter's own standard library as one input; identifiers^<=3 over 17 character classes. "
    "Domain: generate_tokens finishes. Oracle: token text == source slice, ordered, non-overlapping, gaps are only "
    "line-leading whitespace or backslash-newline, one NEWLINE per logical line, INDENT/DEDENT balance, single final "
    "ENDMARKER. Non-trivial = tokenizer finished and produced > 2 tokens (distinct texts)."
)
BOUND = {
    "quick": "nasty_ff^<=4 bare, ^<=3 in 6 carriers; ind^<=6; fstr^<=4 in two f-string carriers; C10 f-string families; E-LINE depth 4; E-TOK xsh n<=3; char edits of 120 programs; 22 files; 1265 standard-library modules (<= 16000 bytes)",
    "thorough": "nasty_ff^<=5 bare, ^<=4 in 6 carriers; ind^<=8; fstr^<=5 in two f-string carriers; C10 f-string families; E-LINE depth 6; E-TOK xsh n<=4; char edits of all programs; 22 files; all 1737 standard-library modules",
}
ASSUMPTIONS = ["lines are split at '\\n' only (io.StringIO.readline semantics)", "inputs on which the tokenizer raises are outside the property's domain and only counted"]
CARR = ["f2", "f3", "str3", "paren", "sub", "withm"]


def units(tier: str) -> list[tuple]:
    n = 4 if tier == "quick" else 5
    us: list[tuple] = []
    us += charspace.units("nasty_ff", "bare", n)
    for c in CARR:
        us += charspace.units("nasty_ff", c, n - 1)
    us += charspace.units("ind", "bare", 6 if tier == "quick" else 8, split=3)
    us += tokspace.units("xsh", 3 if tier == "quick" else 4)
    # f-string interiors: the tokenizer re-cuts tokens there (':=' at field level, '!=' , '{{', format specs)
    us += charspace.units("fstr", "f2", n)
    us += charspace.units("fstr", "fb", n)
    us += charspace.units("fstr2", "f3", n - 1)
    us += [("c10", u) for u in c10.units(tier) if u[0] in ("prod", "adj", "nest")]
    us += edits.char_units(tier)
    us += [("files",)]
    us += [("eline", 4 if tier == "quick" else 6)]
    from ..explore import pylib, spell

    us += pylib.units(tier, "tiling")  # every standard-library module as one input (CRLF copies in the thorough tier)
    us += spell.ident_units()
    return us


def cases(unit: tuple):
    k = unit[0]
    if k == "chr":
        yield from charspace.expand(unit)
    elif k == "tok":
        for s, _ in tokspace.expand(unit):
            yield s
    elif k == "c10":
        yield from c10.cases(unit[1])
    elif k == "cedit":
        yield from edits.char_expand(unit)
    elif k == "pylib":
        from ..explore import pylib

        yield from pylib.expand(unit)
    elif k == "spell":
        from ..explore import spell

        yield from spell.expand(unit)
    elif k == "files":
        for name, src in sorted(corpus.python_files().items()):
            yield src
            yield src.replace("\n", "\r\n")
        for s in corpus.POOL:
            yield s
    elif k == "eline":
        from ..explore import linebfs

        info: dict = {}
        for h, _toks, _err in linebfs.iter_bfs(linebfs.ALPHABET_CORE, unit[1], info):
            yield {"lines": h}
        _ELINE_INFO.update(info)


def run_unit(unit: tuple, acc: Any) -> None:
    for case in acc.watch(cases(unit)):
        check_case(case, acc)


def check_case(src: Any, acc: Any) -> None:
    if isinstance(src, dict) and "lines" in src:
        return check_eline(src, acc)
    lib = None
    if isinstance(src, dict) and "pylib" in src:
        from ..explore import pylib

        lib = src
        src = pylib.read(lib["pylib"])
        if src is None:
            acc.count("lib:not-utf8")
            return
    if isinstance(src, dict):
        src = src["src"]
    st, toks = run.our_tokens(src)
    acc.ran()
    if st != "ok":
        acc.count("outside:" + st)
        return
    acc.count("tokenized")
    if len(toks) > 2:
        acc.nontrivial(src)
    r = tiling.check(src, toks)
    if r is not None:
        if lib is not None:
            acc.violation(r[0] + " [standard-library file]", {"pylib": lib["pylib"]}, r[1], text="")
        else:
            acc.violation(r[0], src, r[1])


_ELINE_INFO: dict = {}


def check_eline(case: dict, acc: Any) -> None:
    """One transition of the E-LINE search: a tokenizer run on the line history; if it finishes, its tokens tile the text."""
    from ..explore import linebfs

    hist = case["lines"]
    src = "".join(hist)
    _s, toks, err = linebfs.feed(hist)
    acc.ran()
    if err is None:
        r = tiling.check(src, toks)
        if r is not None:
            acc.violation(r[0] + " [E-LINE]", {"src": src, "lines": hist}, r[1], text=src)
    if _ELINE_INFO:
        acc.notes["eline"] = dict(_ELINE_INFO)


def finalize(acc: Any, tier: str) -> dict:
    e = acc.notes.get("eline") or {}
    return {"eline": e, "exhaustive": not e.get("capped", False), "states": acc.cases + e.get("states", 0),
            "transitions": acc.cases + e.get("transitions", 0)}
