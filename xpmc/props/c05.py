"""C05 — xonsh expression sugar desugars identically in every expression context."""
from __future__ import annotations

import ast
from functools import lru_cache
from typing import Any, Iterator

from ..explore import asdl
from ..oracle import astcmp, run

ID = "C05"
ENGINE = "constructs x one-hole contexts (E-ASDL contexts), oracle = ast.parse of the written-out translation + span + Store context"
RULE = (
    "every xonsh expression construct of the translation table (with spacing variants) substituted into every one-hole "
    "Load-position context generated from Python's abstract grammar (depth 1, and depth <=2), into xonsh contexts "
    "(inside ${..}, @(..), an f-string field, a subprocess) and, for $NAME / ${expr}, into every binding-target context. "
    "Oracle: tree equals ast.parse(context[translation]) without positions; the construct's node spans exactly the "
    "inserted text; Store context in target positions. Non-trivial = the translated program is accepted by CPython "
    "(distinct programs)."
)
BOUND = {
    "quick": "all constructs x depth-1 contexts; 12 representative constructs x depth-2 contexts; target and nesting contexts",
    "thorough": "all constructs x depth<=2 contexts; target and nesting contexts",
}
ASSUMPTIONS = ["the translation table of DESIGN.md section 4a, written from the property statement and tests/data/exprs/*.py"]
HOLE = asdl.HOLE
X = "__xonsh__"

# (construct text, translation, (start, end) of the construct's own node inside the text or None = whole text)
CONSTRUCTS: list[tuple[str, str, tuple[int, int] | None]] = [
    ("$X", f"{X}.env['X']", None),
    ("$HOME_2", f"{X}.env['HOME_2']", None),
    ("${'a'}", f"{X}.env[str('a')]", None),
    ("${ b + 'c' }", f"{X}.env[str(b + 'c')]", None),
    ("${b.c[0]}", f"{X}.env[str(b.c[0])]", None),
    ("$(ls -l)", f"{X}.subproc_captured('ls', '-l')", None),
    ("$( ls  -l )", f"{X}.subproc_captured('ls', '-l')", None),
    ("$[ls -l]", f"{X}.subproc_uncaptured('ls', '-l')", None),
    ("!(ls -l)", f"{X}.subproc_captured_object('ls', '-l')", None),
    ("![ls -l]", f"{X}.subproc_captured_hiddenobject('ls', '-l')", None),
    ("![ ls ]", f"{X}.subproc_captured_hiddenobject('ls')", None),
    ("$(echo $X 'q s')", f"{X}.subproc_captured('echo', {X}.env['X'], \"'q s'\")", None),  # quoted words stay verbatim
    ("`a.*`", f"{X}.pathsearch('`a.*`')", None),
    ("r`a\\d`", f"{X}.pathsearch('r`a\\\\d`')", None),
    ("g`*.py`", f"{X}.pathsearch('g`*.py`')", None),
    ("p`x`", f"{X}.pathsearch('p`x`')", None),
    ("f`{x}`", f"{X}.pathsearch('f`{{x}}`')", None),
    ("@foo`bar`", f"{X}.pathsearch('@foo`bar`')", None),
    ("rp`x`", f"{X}.pathsearch('rp`x`')", None),
    # escapes inside the backticks: an escaped backslash right before the closing backtick, an escaped backtick
    ("`a\\\\`", f"{X}.pathsearch('`a\\\\\\\\`')", None),
    ("`a\\`b`", f"{X}.pathsearch('`a\\\\`b`')", None),
    ("g`\\\\`", f"{X}.pathsearch('g`\\\\\\\\`')", None),
    ('p"/tmp"', f'{X}.path_literal("/tmp")', None),
    ("p'/t'", f"{X}.path_literal('/t')", None),
    ('pr"\\d"', f'{X}.path_literal(r"\\d")', None),
    ('rp"\\d"', f'{X}.path_literal(r"\\d")', None),
    ('P"/a"', f'{X}.path_literal("/a")', None),
    ("p\"It's\"", f"{X}.path_literal(\"It's\")", None),
    ('p"/a" "/b"', f'{X}.path_literal("/a" "/b")', None),
    ('pf"/a/{b}"', f'{X}.path_literal(f"/a/{{b}}")', None),
    ('fp"/a/{b}"', f'{X}.path_literal(f"/a/{{b}}")', None),
    ('pf"/a"', f'{X}.path_literal(f"/a")', None),
    ('pf"/a/{b}" f"{c}"', f'{X}.path_literal(f"/a/{{b}}" f"{{c}}")', None),
    ('pf"/a" "b" f"{c}"', f'{X}.path_literal(f"/a" "b" f"{{c}}")', None),
    ('p"/a" f"{b}"', f'{X}.path_literal("/a" f"{{b}}")', None),
    ("${k := 'v'}", f"{X}.env[str(k := 'v')]", None),
    ("${a, b}", f"{X}.env[str((a, b))]", None),
    ("${*a, b}", f"{X}.env[str((*a, b))]", None),
    ("${a if b else c}", f"{X}.env[str(a if b else c)]", None),
    ("x?", f"{X}.help(x)", None),
    ("x??", f"{X}.superhelp(x)", None),
    ("(a && b)", "(a and b)", (1, 7)),
    ("(a || b)", "(a or b)", (1, 7)),
    ("(a && b and c)", "(a and b and c)", (1, 13)),
    ("(a || b or c)", "(a or b or c)", (1, 12)),
    ("(a || b && c)", "(a or b and c)", (1, 12)),
    ("(not a && b)", "(not a and b)", (1, 11)),
]
REPRESENTATIVE = ['pf"/a/{b}" f"{c}"', "${k := 'v'}", "$X", "${ b + 'c' }", "$(ls -l)", "![ ls ]", "`a.*`", "`a\\\\`", "@foo`bar`", 'p"/tmp"', 'pf"/a/{b}"', "x?", "x??", "(a && b)", "(a || b && c)"]
ENV_TARGETS = [("$X", f"{X}.env['X']"), ("${'a'}", f"{X}.env[str('a')]"), ("${ b + 'c' }", f"{X}.env[str(b + 'c')]")]
H = HOLE
TARGET_CONTEXTS = [
    f"{H} = 1\n", f"a = {H} = 1\n", f"{H}, b = c\n", f"b, {H} = c\n", f"*{H}, b = c\n", f"({H}, b) = c\n", f"[{H}] = c\n",
    f"({H}) = c\n", f"{H} += 1\n", f"({H}) -= a\n", f"{H}: int = 1\n", f"{H}: int\n", f"for ({H}) in x:\n    pass\n", f"for [a, ({H})] in x:\n    pass\n", f"for {H} in x:\n    pass\n", f"for a, {H} in x:\n    pass\n", f"with a as {H}:\n    pass\n",
    f"with a as ({H}, b):\n    pass\n", f"[0 for {H} in x]\n", f"{{0: 1 for a, {H} in x}}\n",
    f"async def f():\n    async for {H} in x:\n        pass\n", f"async def f():\n    async with a as {H}:\n        pass\n",
    f"(0 for {H} in x)\n",
]
# xonsh-only surroundings: (xonsh context, python context)
NEST_CONTEXTS = [
    (f"${{ {H} }}\n", f"{X}.env[str({H})]\n"),
    (f"$(echo @({H}))\n", f"{X}.subproc_captured('echo', *{X}.list_of_strs_or_callables({H}))\n"),
    (f"![echo @({H}) b]\n", f"{X}.subproc_captured_hiddenobject('echo', *{X}.list_of_strs_or_callables({H}), 'b')\n"),
    (f"f'{{{H}}}'\n", f"f'{{{H}}}'\n"),
    (f"f'a{{{H}!r:>4}}b'\n", f"f'a{{{H}!r:>4}}b'\n"),
]
PAIR_CONTEXTS = [
    "x = ({0},\n     {1})\n", "print({0}, end={1})\n", "{0} if {1} else {0}\n", "[{0}, {1}][{1}:{0}]\n", "{0} + {1} * {0}\n",
]


_AFTER_AT = __import__("re").compile(r"(?m)^[ \t]*@[ \t]*" + HOLE)


def _load_ok(ctx_text: str) -> bool:
    """The hole is a Load-position expression outside assignment/augassign/annassign/del targets and not right after '@'."""
    if _AFTER_AT.search(ctx_text):
        return False
    try:
        tree = ast.parse(ctx_text)
    except SyntaxError:
        return False
    banned: set[int] = set()
    found = []
    for node in ast.walk(tree):
        tg: list[Any] = []
        if isinstance(node, ast.Assign):
            tg = node.targets
        elif isinstance(node, (ast.AugAssign, ast.AnnAssign)):
            tg = [node.target]
        elif isinstance(node, ast.Delete):
            tg = node.targets
        for t in tg:
            for sub in ast.walk(t):
                banned.add(id(sub))
        if isinstance(node, ast.Name) and node.id == HOLE:
            found.append(node)
    return len(found) == 1 and isinstance(found[0].ctx, ast.Load) and id(found[0]) not in banned


@lru_cache(maxsize=None)
def load_contexts(depth: int) -> tuple[str, ...]:
    # '@(' is the xonsh digraph: a decorator written '@(...)' is outside the domain
    return tuple(c for c in asdl.contexts(depth) if "@(" not in c and _load_ok(c))


def context_units(tier: str) -> list[tuple]:
    us: list[tuple] = [("ctx", "d1", 0, 0), ("ctx", "targets", 0, 0), ("ctx", "nest", 0, 0)]
    n2 = len(load_contexts(2))
    for lo in range(0, n2, 200):
        us.append(("ctx", "d2", lo, min(n2, lo + 200), tier))
    return us


def units(tier: str) -> list[tuple]:
    return context_units(tier)


def _sub(ctx: str, text: str) -> tuple[str, int]:
    i = ctx.index(HOLE)
    return ctx[:i] + text + ctx[i + len(HOLE) :], i


def cases(unit: tuple) -> Iterator[dict]:
    kind = unit[1]
    if kind == "d1":
        for c in load_contexts(1):
            for k, t, inner in CONSTRUCTS:
                yield _case(c, c, k, t, inner)
    elif kind == "d2":
        tier = unit[4]
        d1 = set(load_contexts(1))
        for c in load_contexts(2)[unit[2] : unit[3]]:
            if c in d1:
                continue
            for k, t, inner in CONSTRUCTS:
                if tier == "quick" and k not in REPRESENTATIVE:
                    continue
                yield _case(c, c, k, t, inner)
    elif kind == "targets":
        for c in TARGET_CONTEXTS:
            for k, t in ENV_TARGETS:
                d = _case(c, c, k, t, None)
                d["store"] = True
                yield d
    elif kind == "nest":
        for xc, pc in NEST_CONTEXTS:
            for k, t, inner in CONSTRUCTS:
                if "f'" in xc and ("'" in k or '"' in k or "\\" in k):
                    continue  # quotes / backslashes inside an f-string field are a different construct family (C10)
                yield _case(xc, pc, k, t, inner)
        for pc in PAIR_CONTEXTS:
            for (k1, t1, _), (k2, t2, _) in zip(CONSTRUCTS, CONSTRUCTS[1:] + CONSTRUCTS[:1]):
                yield {"src": pc.format(k1, k2), "py": pc.format(t1, t2), "k": k1 + " / " + k2, "span": None}


def _case(xctx: str, pctx: str, k: str, t: str, inner: tuple[int, int] | None) -> dict:
    src, i = _sub(xctx, k)
    py, j = _sub(pctx, t)
    a, b = inner if inner else (0, len(k))
    ta, tb = inner if inner else (0, len(t))
    if inner:
        tb = len(t) - (len(k) - inner[1])
    return {"src": src, "py": py, "k": k, "span": [i + a, i + b], "pyspan": [j + ta, j + tb]}


def run_unit(unit: tuple, acc: Any) -> None:
    for case in acc.watch(cases(unit)):
        check_case(case, acc)


def _offset_to_pos(text: str, off: int) -> tuple[int, int]:
    """(line, column in UTF-8 bytes) of a character offset: AST columns count bytes."""
    line = text.count("\n", 0, off) + 1
    bol = text.rfind("\n", 0, off) + 1
    return line, len(text[bol:off].encode("utf-8", "surrogatepass"))


def _find(tree: Any, span: tuple[int, int, int, int], want: type) -> list[tuple[str, int | None]] | None:
    """Path (field, index) to the outermost node of class `want` with exactly this span."""
    stack: list[tuple[Any, list]] = [(tree, [])]
    while stack:
        node, path = stack.pop(0)
        if isinstance(node, want) and (getattr(node, "lineno", None), getattr(node, "col_offset", None), getattr(node, "end_lineno", None), getattr(node, "end_col_offset", None)) == span:
            return path
        for f in node._fields:
            v = getattr(node, f, None)
            if isinstance(v, ast.AST):
                stack.append((v, path + [(f, None)]))
            elif isinstance(v, list):
                for idx, x in enumerate(v):
                    if isinstance(x, ast.AST):
                        stack.append((x, path + [(f, idx)]))
    return None


def _follow(tree: Any, path: list) -> Any:
    node = tree
    for f, idx in path:
        node = getattr(node, f)
        if idx is not None:
            node = node[idx]
    return node


def check_case(case: dict, acc: Any) -> None:
    src, py = case["src"], case["py"]
    st, ref = run.cpy(py, "exec")
    if st != run.TREE:
        acc.count("outside:translation-not-python")
        return
    acc.nontrivial(src)
    st, tree = run.ours(src, "exec")
    acc.ran()
    if st != run.TREE:
        acc.count("REJECTED")
        acc.violation(f"REJECTED {type(tree).__name__} construct={_fam(case['k'])}", case, run.exc_brief(tree), text=src)
        return
    d = astcmp.diff(tree, ref, positions=False)
    if d is not None:
        acc.count("TREE-DIFF")
        acc.violation(f"TREE-DIFF construct={_fam(case['k'])} {astcmp.sig(d[0])}", case, {"path": d[0], "ours": d[1], "translation": d[2]}, text=src)
        return
    acc.count("equal")
    if case.get("span") is None:
        return
    # span of the construct's node: locate the translation's root node in the reference tree, follow the same path
    a, b = case["pyspan"]
    (l0, c0), (l1, c1) = _offset_to_pos(py, a), _offset_to_pos(py, b)
    try:
        want = type(ast.parse(py[a:b], mode="eval").body)
    except SyntaxError:
        return
    path = _find(ref, (l0, c0, l1, c1), want)
    if path is None:
        acc.count("span:unlocated")
        return
    node = _follow(tree, path)
    sa, sb = case["span"]
    (xl0, xc0), (xl1, xc1) = _offset_to_pos(src, sa), _offset_to_pos(src, sb)
    got = (getattr(node, "lineno", None), getattr(node, "col_offset", None), getattr(node, "end_lineno", None), getattr(node, "end_col_offset", None))
    acc.count("span:checked")
    if got != (xl0, xc0, xl1, xc1):
        acc.violation(f"SPAN construct={_fam(case['k'])} {type(node).__name__}", case, {"node_span": got, "text_span": (xl0, xc0, xl1, xc1)}, text=src)
        return
    if case.get("store") and not isinstance(getattr(node, "ctx", None), ast.Store):
        acc.violation(f"CTX construct={_fam(case['k'])} not Store", case, type(getattr(node, "ctx", None)).__name__, text=src)


def _fam(k: str) -> str:
    """Construct family for signatures."""
    if k.startswith("${"):
        return "${}"
    if k.startswith("$(") or k.startswith("$[") or k.startswith("!(") or k.startswith("!["):
        return k[:2]
    if k.startswith("$"):
        return "$NAME"
    if "`" in k:
        return "search-path"
    if k.endswith("??"):
        return "x??"
    if k.endswith("?"):
        return "x?"
    if "&&" in k or "||" in k:
        return "&&/||"
    low = k.split('"')[0].split("'")[0].lower()
    if "p" in low and "f" in low:
        return "pf-string"
    if "p" in low:
        return "p-string"
    return k
