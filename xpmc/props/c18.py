"""C18 — parsing work grows at most linearly with input size and nesting depth."""
from __future__ import annotations

import textwrap
from typing import Any, Iterator

ID = "C18"
ENGINE = "size-parameterised families (all ordered pairs of self-nesting constructors, lengthening constructors) x terminators x sizes; work counters from a counting Tokenizer subclass"
RULE = (
    "every ordered pair of self-nesting constructors (brackets, call, subscript, lambda, dict value, comprehension, "
    "conditional, unary, ${}, $() nested through @() and directly, ![ ], @$(), call macros, bracketed command groups inside the four subprocess forms, tuple/starred targets, del targets, patterns, nested blocks of each compound "
    "statement) nested alternately, and every lengthening constructor (operator chains, argument lists, dict items, "
    "statement lists, string concatenation, decorators, attribute / subscript / comparison / assignment chains), each "
    "and long runs (64 ... 512 / 1024 copies) of four simple statements in front of nine fixed nested tails; the nesting and lengthening families "
    "closed by every terminator of {valid leaf, 'a b', missing operand, stray '=', unclosed brackets, an f-string, a stray '}'}, at every size of "
    "the bound. Observation: getnext+peek+reset calls of a counting Tokenizer subclass handed to the public parser "
    "constructor (a count above 5000 x tokens aborts the case). Oracle: work(2d) <= 2.6 x work(d) for d >= 8 and "
    "work(d)/tokens(d) <= 4 x the family's value at d = 4. Non-trivial = families measured at all sizes (distinct)."
)
BOUND = {"quick": "sizes 4, 8, 16, 32; prefixed runs 64, 128, 256, 512", "thorough": "sizes 4, 8, 16, 32, 64; pairs also with the block constructors; prefixed runs up to 1024"}
ASSUMPTIONS = ["token reads and resets are the unit of work (the property's own definition); wall-clock time is not measured"]
CASE_DEADLINE = 120.0
CAP = 5000

# (name, prefix, suffix) — expression-level constructors: prefix + X + suffix is an expression when X is
NEST = [
    ("paren", "(", ")"), ("list", "[", "]"), ("set", "{", "}"), ("call", "f(", ")"), ("subscript", "a[", "]"), ("lambda", "lambda: ", ""),
    ("dictval", "{1: ", "}"), ("listcomp", "[", " for x in y]"), ("ifexp", "(", " if c else d)"), ("neg", "-", ""), ("not", "not ", ""),
    ("envexpr", "${", "}"), ("subproc", "$(echo @(", "))"), ("tuple1", "(", ",)"), ("starred", "[*", "]"), ("kwarg", "f(k=", ")"),
    ("attrcall", "x.y(", ").z"), ("await", "await ", ""), ("genexp", "f(", " for x in y)"), ("binop", "(1 + ", ")"), ("walrus", "(w := ", ")"),
    ("fstring", "f'{", "}'"),
    ("subproc-direct", "$(echo ", ")"), ("subproc-sq", "![a ", " b]"), ("inject", "$(echo @$(c ", "))"), ("macro", "f!(", ")"),
]
TERMINATORS = [("leaf", "a"), ("two-names", "a b"), ("missing", ""), ("stray-eq", "a ="), ("unclosed", None), ("fstring-leaf", 'f"x"'),
               ("stray-brace", "a }")]
# statement-level: wrappers around an expression statement / a target
STMT = [
    ("expr", "{}\n"), ("assign-rhs", "x = {}\n"), ("target", "{} = 1\n"), ("del", "del {}\n"), ("for-target", "for {} in y: pass\n"),
    ("return", "def g():\n    return {}\n"), ("case", "match q:\n    case {}: pass\n"),
]
TARGET_NEST = [("ttuple", "(", ",)"), ("tlist", "[", "]"), ("tstar", "(*", ",)"), ("tparen", "(", ")"), ("tattr", "", ".b"), ("tsub", "", "[0]")]
PATTERN_NEST = [("plist", "[", "]"), ("ptuple", "(", ",)"), ("pclass", "C(", ")"), ("pmap", "{1: ", "}"), ("por", "", " | 2"), ("pas", "(", " as z)")]
BLOCKS = [("if", "if a:\n"), ("while", "while a:\n"), ("for", "for i in j:\n"), ("def", "def f():\n"), ("class", "class C:\n"), ("with", "with a as b:\n"),
          ("try", "try:\n"), ("elif", "if a:\n    pass\nelif b:\n"), ("async", "async def f():\n"), ("tryexc", "try:\n"), ("match", "match a:\n  case b:\n")]
CHAINS = [
    ("add", "a", " + a"), ("args", "f(a", ", a", ")"), ("dict", "{1: a", ", 1: a", "}"), ("semi", "a", "; a"), ("strs", "'s'", " 's'"),
    ("attr", "a", ".b"), ("subs", "a", "[0]"), ("cmp", "a", " < a"), ("ifelse", "a", " if a else a"), ("assigns", "x", " = x", " = 1"),
    ("stmts", "a\n", "a\n"), ("decorators", "@d\n", "@d\n", "def f(): pass\n"), ("bool", "a", " and a or a"), ("calls", "f", "(a)"),
    ("words", "$(echo", " -x", ")"), ("pipes", "![a", " | a", "]"), ("macroargs", "f!(a", ", [a]", ")"), ("imports", "import a", ", a"),
    ("withitems", "with a", ", a", ": pass\n"), ("elifs", "if a: pass\n", "elif a: pass\n"), ("params", "def f(a", ", a=1", "): pass\n"),
    ("fparts", "f'", "{a} ", "'"),
]


# bracketed groups inside a subprocess (taken as text): every pair of openers nested alternately, closed, unclosed (the
# subprocess's own closer follows) and closed by the wrong bracket
GROUP_NEST = [("gparen", "(a ", ")"), ("gbrack", "[a ", "]"), ("gbare", "( ", ")"), ("gsub", "$(a ", ")"), ("gbang", "![a ", "]"), ("gword", "a(", ")")]
GROUP_TMPL = [("cap", "$(echo {})\n"), ("hid", "![echo {}]\n"), ("obj", "x = !(echo {} b)\n"), ("inj", "$(echo @$(c {}))\n")]


def units(tier: str) -> list[tuple]:
    us: list[tuple] = []
    for i in range(len(NEST)):
        us.append(("pairs", i, tier))
    us.append(("groups", tier))
    us.append(("targets", tier))
    us.append(("patterns", tier))
    for i in range(len(BLOCKS)):
        us.append(("blocks", i, tier))
    us.append(("chains", tier))
    for i in range(len(PREFIX_STMTS)):
        for j in range(len(PREFIX_TAILS)):
            us.append(("prefixed", i, j, tier))
    return us


# A long run of simple statements in front of a fixed nested tail: the work may grow with the length of the run only
# linearly (tables that fill up, caches with a size limit, line tables searched linearly only show on long inputs).
PREFIX_STMTS = ["foo(a, b=1)\n", "x = [1, {2: 'three'}]\n", "$(ls -l $HOME)\n", "if a:\n    b = f'{c!r:>4}'\n"]
PREFIX_TAILS = [
    ("valid", "y = 1\n"),
    ("try4-bad", "try:\n    try:\n        try:\n            try:\n                pass pass\n"),
    ("if6-bad", "".join("    " * k + "if a:\n" for k in range(6)) + "    " * 6 + "x = (\n"),
    ("parens-bad", "x = ((((((1))))))\ny = = 2\n"),
    ("match-bad", "match q:\n    case [[[[C(a, {1: (b | 2)})]]]] if: pass\n"),
    ("call-bad", "f(g(h(i(j(k=1, *a, **b))))) = 3\n"),
    ("subproc-bad", "$(echo @($(echo @(1 1))))\n"),
    ("fstring-bad", "z = f'{a:{b:{c}}} {d!x}'\n"),
    ("target-bad", "((a, (b, (c, (d, e)))), f) += 1\n"),
]


def sizes(tier: str) -> list[int]:
    return [4, 8, 16, 32] if tier == "quick" else [4, 8, 16, 32, 64]


def _nest(c1: tuple, c2: tuple, d: int, term: tuple) -> str | None:
    pre, suf = "", ""
    for k in range(d):
        c = c1 if k % 2 == 0 else c2
        pre += c[1]
        suf = c[2] + suf
    if term[1] is None:
        return pre + "a"  # unclosed: all closing suffixes dropped
    return pre + term[1] + suf


def cases(unit: tuple) -> Iterator[dict]:
    k = unit[0]
    tier = unit[-1]
    if k == "pairs":
        c1 = NEST[unit[1]]
        for c2 in NEST:
            for term in TERMINATORS:
                for sname, tmpl in STMT[:2]:
                    if sname != "expr" and term[0] not in ("leaf", "missing"):
                        continue
                    yield {"family": f"nest:{c1[0]}/{c2[0]}:{term[0]}:{sname}", "kind": "pair", "c1": list(c1), "c2": list(c2), "term": list(term),
                           "tmpl": tmpl, "sizes": sizes(tier)}
    elif k == "targets":
        for c1 in TARGET_NEST:
            for c2 in TARGET_NEST:
                for term in TERMINATORS:
                    for sname, tmpl in STMT[2:5]:
                        yield {"family": f"target:{c1[0]}/{c2[0]}:{term[0]}:{sname}", "kind": "pair", "c1": list(c1), "c2": list(c2), "term": list(term),
                               "tmpl": tmpl, "sizes": sizes(tier)}
                    yield {"family": f"target:{c1[0]}/{c2[0]}:{term[0]}:norhs", "kind": "pair", "c1": list(c1), "c2": list(c2), "term": list(term),
                           "tmpl": "{} =\n", "sizes": sizes(tier)}
    elif k == "groups":
        for c1 in GROUP_NEST:
            for c2 in GROUP_NEST:
                for term in TERMINATORS + [("wrong-closer", "a ]"), ("wrong-closer2", "a )")]:
                    for tname, tmpl in GROUP_TMPL:
                        yield {"family": f"group:{c1[0]}/{c2[0]}:{term[0]}:{tname}", "kind": "pair", "c1": list(c1), "c2": list(c2), "term": list(term),
                               "tmpl": tmpl, "sizes": sizes(tier) + ([64] if tier == "quick" else [128])}
    elif k == "patterns":
        for c1 in PATTERN_NEST:
            for c2 in PATTERN_NEST:
                for term in TERMINATORS:
                    yield {"family": f"pattern:{c1[0]}/{c2[0]}:{term[0]}", "kind": "pair", "c1": list(c1), "c2": list(c2), "term": list(term),
                           "tmpl": STMT[6][1], "sizes": [s for s in sizes(tier) if s <= 32]}
    elif k == "blocks":
        for b1 in BLOCKS[unit[1] : unit[1] + 1]:
            for b2 in BLOCKS:
                for leaf in ("pass", "a b", "", "x = (", "return (1,", "pass\0x @@", "pass\0y = (1,"):
                    # "\0": what follows is a statement at top level, after the whole nest (the error lies elsewhere)
                    yield {"family": f"block:{b1[0]}/{b2[0]}:{leaf.replace(chr(0), ' then ') or 'empty'}", "kind": "block", "b1": list(b1), "b2": list(b2), "leaf": leaf,
                           "sizes": [s for s in sizes(tier) if s <= 32]}
    elif k == "prefixed":
        st = PREFIX_STMTS[unit[1]]
        for tname, tail in PREFIX_TAILS[unit[2] : unit[2] + 1]:
            yield {"family": f"prefixed:{unit[1]}:{tname}", "kind": "prefixed", "stmt": st, "tail": tail,
                   "sizes": [64, 128, 256, 512] if tier == "quick" else [64, 128, 256, 512, 1024]}
    elif k == "chains":
        for ch in CHAINS:
            for tail in ("", " b b", " =", " ("):
                yield {"family": f"chain:{ch[0]}:{tail.strip() or 'valid'}", "kind": "chain", "chain": list(ch), "tail": tail, "sizes": [4 * s for s in sizes(tier)]}


def build(case: dict, d: int) -> str:
    if case["kind"] == "pair":
        inner = _nest(tuple(case["c1"]), tuple(case["c2"]), d, tuple(case["term"]))
        return case["tmpl"].format(inner)
    if case["kind"] == "prefixed":
        return case["stmt"] * d + case["tail"]
    if case["kind"] == "block":
        src = ""
        for k in range(d):
            b = case["b1"] if k % 2 == 0 else case["b2"]
            src += textwrap.indent(b[1], "    " * k)
            if b[0] == "try" :
                pass
        leaf, _, after = (case["leaf"] or "").partition("\0")
        src += "    " * d + leaf + "\n"
        # close try blocks so that the valid variant is valid
        for k in reversed(range(d)):
            b = case["b1"] if k % 2 == 0 else case["b2"]
            if b[0] == "try":
                src += "    " * k + "finally:\n" + "    " * (k + 1) + "pass\n"
            elif b[0] == "tryexc":
                src += "    " * k + "except E:\n" + "    " * (k + 1) + "pass\n"
        return src + (after + "\n" if after else "")
    ch = case["chain"]
    head, rep = ch[1], ch[2]
    close = ch[3] if len(ch) > 3 else ""
    body = head + rep * d
    if case["tail"] == "":
        return body + close + ("" if (body + close).endswith("\n") else "\n")
    return body + case["tail"] + "\n"


class WorkLimit(Exception):
    pass


def measure(src: str) -> tuple[int, int, str]:
    """(work, tokens, outcome class)"""
    from peg_parser.parser import XonshParser
    from peg_parser.tokenize import TokenError, generate_tokens
    from peg_parser.tokenizer import Tokenizer

    class Counting(Tokenizer):
        work = 0
        limit = 0

        def _tick(self) -> None:
            self.work += 1
            if self.work > CAP * max(50, len(self._tokens)) and self.work > self.limit:
                raise WorkLimit

        def getnext(self):  # type: ignore[override]
            self._tick()
            return super().getnext()

        def peek(self):  # type: ignore[override]
            self._tick()
            return super().peek()

        def reset(self, index):  # type: ignore[override]
            self._tick()
            return super().reset(index)

    tok = Counting(generate_tokens(src))
    parser = XonshParser(tok)
    try:
        parser.parse("file")
        out = "tree"
    except WorkLimit:
        out = "work-limit"
    except SyntaxError:
        out = "syntax"
    except TokenError:
        out = "token"
    except RecursionError:
        out = "recursion"
    return tok.work, len(tok._tokens), out


def run_unit(unit: tuple, acc: Any) -> None:
    for case in acc.watch(cases(unit)):
        check_case(case, acc)


def check_case(case: dict, acc: Any) -> None:
    ws: dict[int, tuple[int, int, str]] = {}
    for d in case["sizes"]:
        w, t, out = measure(build(case, d))
        acc.ran()
        ws[d] = (w, t, out)
        if out == "work-limit":
            acc.violation("SUPERLINEAR work-cap (more than 5000 token operations per token)", case, {str(k): v for k, v in ws.items()})
            return
        if out == "recursion":
            acc.count("outside:recursion-limit")
            return
    acc.nontrivial(case["family"])
    ds = sorted(ws)
    base = ws[ds[0]][0] / max(1, ws[ds[0]][1])
    for d in ds:
        w, t, _ = ws[d]
        if d >= 8 and 2 * d in ws and ws[2 * d][0] > 2.6 * w:
            acc.violation("SUPERLINEAR doubling the size more than doubles the work", case, {str(k): v for k, v in ws.items()})
            return
        if w / max(1, t) > 4 * base and d > ds[0]:
            acc.violation("SUPERLINEAR work per token grows with size", case, {str(k): v for k, v in ws.items()})
            return
    acc.count("linear:" + ws[ds[-1]][2])
