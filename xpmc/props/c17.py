"""C17 — the parser generator implements PEG semantics for every grammar."""
from __future__ import annotations

import io
import itertools
import tokenize as T
from typing import Any, Iterator

from ..explore import grammars as G
from ..oracle import pegref

ID = "C17"
ENGINE = "E-GRAM grammars x all token strings, generated parser vs an independent memo-free PEG interpreter; every model trace is replayed on the generated parser"
RULE = (
    "every grammar of the enumerated families (one item from 124 item shapes; two items; two alternatives; 2+1 items "
    "with cuts, lookaheads, forced tokens; three items; direct / mutual / nested left recursion with every tail item; "
    "with and without (memo), with and without named items + actions, four auxiliary rules; alternatives that refer to invalid_ rules and *_without_invalid rules, run with pegen's call_invalid_rules flag off and on) that satisfies the "
    "quantifier's well-formedness conditions (decided by an own nullable / first-graph analysis), x every token string "
    "over {a, b, c} up to the length bound, run on the real tokenizer. Each grammar is built as pegen.grammar objects and "
    "again from its text through the shipped metagrammar parser (equal repr), generated with XonshParserGenerator and "
    "exec'd. Oracle: for rule r invoked directly and through 'start: r NEWLINE ENDMARKER' the generated parser's "
    "(value, end position) or forced-token error equals the reference interpreter's. Non-trivial = (grammar, string) "
    "pairs inside the domain on which the reference accepts (distinct)."
)
BOUND = {"quick": "families one / two-items / two-alts / alt21 / leftrec / invalid; strings over {a,b,c} of length <= 4 (121)",
         "thorough": "all families incl. three items; all four auxiliary rules; strings of length <= 5 (364)"}
ASSUMPTIONS = ["pegen's documented value conventions (single item -> its value, several -> list, action -> its value) are part of the semantics compared",
               "(grammar, input) pairs where some alternative succeeds with a falsy value are outside the quantifier (counted)"]
CASE_DEADLINE = 60.0
TECHNIQUE = "model checking: exhaustive enumeration of small grammars x token strings; model (PEG interpreter) traces all replayed on the generated implementation"

HEADER = "from typing import Any\nfrom peg_parser.subheader import Parser, logger, memoize, memoize_left_rec\n"


def units(tier: str) -> list[tuple]:
    return G.units(tier)


def cases(unit: tuple) -> Iterator[dict]:
    for desc, _g in G.expand(unit):
        d = dict(desc)
        d["tier"] = unit[3]
        yield d


def run_unit(unit: tuple, acc: Any) -> None:
    tier = unit[3]
    for desc, g in acc.watch(G.expand(unit)):
        check_grammar(desc, g, tier, acc)
        g2 = respell(g)
        if g2 is not None:
            check_grammar(dict(desc, spelled=True), g2, tier, acc)


def respell(g: Any) -> Any:
    """The same grammar with 'a' spelled 'if', for grammars that use exactly one keyword: the token strings then hold a
    name ('i') that is part of the keyword, and the keyword table has a single entry."""
    hard, _soft = pegref.grammar_keywords(g)
    if hard != {"a"}:
        return None
    return parse_text(G.render(g).replace("'a'", "'if'"))


def check_case(case: dict, acc: Any) -> None:
    tier = case.get("tier", "thorough")
    g = G.rebuild(case, tier)
    check_grammar(case, respell(g) if case.get("spelled") else g, tier, acc)


_STRINGS: dict[int, list[tuple[str, list]]] = {}


SPELL = {"a": "if", "b": "b", "c": "i"}  # second spelling: a keyword of two letters and a name that is part of it


def strings(n: int, spelled: bool = False) -> list[tuple[str, list]]:
    """[(text, significant tokens)] for all strings over {a,b,c} up to length n (or over their second spelling)."""
    if spelled:
        n = -n
    if n not in _STRINGS:
        from peg_parser.tokenize import Token, generate_tokens
        from peg_parser.tokenizer import Tokenizer

        out = []
        for k in range(0, abs(n) + 1):
            for tup in itertools.product("abc", repeat=k):
                if spelled:
                    tup = tuple(SPELL[t] for t in tup)
                text = " ".join(tup) + ("\n" if tup else "")
                tk = Tokenizer(generate_tokens(text))
                toks = []
                while True:
                    t = tk.getnext()
                    toks.append(t)
                    if t.type is Token.ENDMARKER:
                        break
                out.append((text, toks))
        _STRINGS[n] = out
    return _STRINGS[n]


def parse_text(text: str) -> Any:
    from pegen.grammar_parser import GeneratedParser
    from pegen.tokenizer import Tokenizer as PTokenizer

    tok = PTokenizer(T.generate_tokens(io.StringIO(text).readline))
    return GeneratedParser(tok).start()


_ADDR = __import__("re").compile(r"<pegen\.grammar\.Forced object at 0x[0-9a-f]+>")


def _srepr(rules: Any) -> str:
    """repr of the rules; pegen's Forced has no __repr__ (it prints an address), so its operand is spelled out."""
    from pegen.grammar import Forced

    forced: list[str] = []

    def walk(node: Any) -> None:
        if isinstance(node, Forced):
            forced.append("Forced(" + repr(node.node) + ")")
        if hasattr(node, "__iter__") and not isinstance(node, str):
            for ch in node:
                if isinstance(ch, list):
                    for x in ch:
                        walk(x)
                else:
                    walk(ch)

    for r in rules.values():
        walk(r)
    it = iter(forced)
    return _ADDR.sub(lambda m: next(it, "Forced(?)"), repr(rules))


def generate(g: Any) -> Any:
    from tasks.generator import XonshParserGenerator

    g.metas = {"header": HEADER, "class": "GenParser", "trailer": ""}
    buf = io.StringIO()
    gen = XonshParserGenerator(g, buf)
    gen.generate("<c17>")
    ns: dict[str, Any] = {"__name__": "xpmc_c17_generated"}
    code = buf.getvalue()
    exec(compile(code, "<generated>", "exec"), ns)  # noqa: S102
    return ns["GenParser"], code


def norm(v: Any) -> Any:
    from peg_parser.tokenize import TokenInfo

    if isinstance(v, TokenInfo):
        return v.string if v.string else "<" + v.type.name + ">"
    if isinstance(v, list):
        return ["list", *[norm(x) for x in v]]
    if isinstance(v, tuple):
        return ["tuple", *[norm(x) for x in v]]
    return v


def run_generated(cls: Any, rule: str, toks: list, invalid: bool = False) -> tuple:
    from peg_parser.tokenizer import Tokenizer

    p = cls(Tokenizer(iter(toks)))
    p.call_invalid_rules = invalid
    try:
        v = getattr(p, rule)()
    except SyntaxError:
        return ("forced", None, 0)
    except RecursionError:
        return ("recursion", None, 0)
    except Exception as e:  # noqa: BLE001
        return ("exception:" + type(e).__name__, str(e)[:80], 0)
    if not v:
        return ("fail", None, 0)
    return ("ok", norm(v), int(p._mark()))


def check_grammar(desc: dict, g: Any, tier: str, acc: Any) -> None:
    why = pegref.well_formed(g)
    if why:
        acc.count("outside:" + why.replace(" ", "-"))
        return
    text = G.render(g)
    fam = desc["fam"]
    case = dict(desc, grammar=text)
    # ---- the grammar text goes through the shipped metagrammar parser
    g2 = parse_text(text)
    acc.ran()
    if g2 is None or _srepr(g2.rules) != _srepr(g.rules) or [r.memo for r in g2.rules.values()] != [r.memo for r in g.rules.values()]:
        acc.violation(f"METAGRAMMAR text and object grammar differ family={fam}", case, {"parsed": repr(g2.rules)[:300] if g2 else None, "built": repr(g.rules)[:300]})
        return
    try:
        cls, code = generate(g2)
    except Exception as e:  # noqa: BLE001
        acc.violation(f"GENERATOR raises {type(e).__name__} family={fam}", case, str(e)[:200])
        return
    hard, soft = pegref.grammar_keywords(g)
    if not isinstance(cls.KEYWORDS, tuple) or not isinstance(cls.SOFT_KEYWORDS, tuple) or set(cls.KEYWORDS) != hard or set(cls.SOFT_KEYWORDS) != soft:
        acc.violation(f"GENERATOR keyword tables differ from the grammar's literals family={fam}", case,
                      {"KEYWORDS": repr(cls.KEYWORDS), "SOFT_KEYWORDS": repr(cls.SOFT_KEYWORDS), "grammar": [sorted(hard), sorted(soft)]})
        return
    kw = hard | soft
    n = 4 if tier == "quick" else 5
    passes = (False, True) if fam == "invalid" else (False,)  # pegen's call_invalid_rules flag: first and second pass
    for text_in, toks in strings(n, bool(desc.get("spelled"))):
      for inv in passes:
        for rule in ("r", "start"):
            if rule == "start" and not text_in:
                continue
            try:
                want = pegref.run(g, rule, toks, kw, inv)
                want = (want[0], norm(want[1]) if want[0] == "ok" else None, want[2])
            except pegref.OutsideDomain as e:
                acc.count("pair-outside:" + str(e).split(" ")[0])
                continue
            except RecursionError:
                acc.count("pair-outside:reference-recursion")
                continue
            got = run_generated(cls, rule, toks, inv)
            acc.ran()
            if want[0] == "ok":
                acc.nontrivial((text, rule, text_in))
            if got == want:
                continue
            if got[0] != want[0]:
                kind = f"{want[0]}-expected-got-{got[0]}"
            elif got[1] != want[1]:
                kind = "value-differs"
            else:
                kind = "end-position-differs"
            acc.violation(f"PEG {kind} family={fam} rule={rule}" + (" pass=2" if inv else ""), dict(case, input=text_in, call_invalid_rules=inv), {"generated": got, "reference": want, "code": code[-600:]})
            return
    acc.count("agree")
