"""C11 — syntax errors are well-formed and point into the offending source."""
from __future__ import annotations

from typing import Any

from ..explore import layout
from ..oracle import errshape, run
from . import _diff

ID = "C11"
USE = ("tok", "sub", "xsub", "asdl", "lay", "edit", "xedit", "chr")
VOCABS = ("expr", "stmt", "defs", "match", "lit", "xsh")
SHIFT = -1
ENGINE = "rejected inputs of E-TOK (python + xonsh) + E-SUB + E-ASDL + E-LAY + E-EDIT + pylay, plus the layout lift; errshape oracle"
RULE = (
    "every input of the lexeme-sequence trees (python and xonsh vocabularies), carriers, abstract-grammar paths, layout "
    "deviations, token-edit neighbourhoods of the python and xonsh corpora and the pylay character space, plus the "
    "'layout lift': each rejected short input re-rendered with its brackets spread over lines, blank/comment lines and a "
    "multi-line string inside the span, first/last in a 3-statement file; py_version-gated syntax under low versions. "
    "Whenever SyntaxError/IndentationError is raised: message, file name, 1<=lineno<=lines+1, 1<=offset<=len(line)+1, "
    "end>=start, text begins with the source line. Non-trivial = a SyntaxError was raised (distinct texts)."
)
BOUND = {t: _diff.describe(t, USE, VOCABS, SHIFT, 2, 12_000) + "; layout lift of E-TOK expr/stmt/xsh/lit n<=" + ("2" if t == "quick" else "3") + "; indentation strings {tab,space,a,newline}^<=" + ("7" if t == "quick" else "9") + " in an if-block; nasty_ff^<=" + ("3" if t == "quick" else "4") + " inside a multi-line string / f-string / bracket followed by an error" for t in ("quick", "thorough")}
ASSUMPTIONS = ["lines are split at '\\n' only; a trailing '\\r' of a CRLF line is not counted in the line length"]

LIFT_PRE = ["", "x = 1\n", "x = '''a\nb'''\n", "\n# c\n"]
LIFT_POST = ["", "y = 2\n"]


def units(tier: str) -> list[tuple]:
    us = _diff.units(tier, USE, VOCABS, SHIFT, asdl_k=2, sub_cap=12_000)
    from ..explore import tokspace

    n = 2 if tier == "quick" else 3
    for v in ("expr", "stmt", "xsh", "lit"):
        for u in tokspace.units(v, n):
            us.append(("lift",) + u)
    us.append(("gated",))
    from ..explore import charspace

    q = tier == "quick"
    us += charspace.units("indent4", "ifblock", 7 if q else 9, split=3)
    for carrier in ("str3err", "fstr3err", "parenerr"):
        us += charspace.units("nasty_ff", carrier, 3 if q else 4)
    return us


def lift(src: str):
    """Re-render a one-line input so that the error span crosses lines without tokens and multi-line tokens."""
    for a, b in (("(", "(\n\n  "), ("(", "(  # c\n"), (",", ",\n\n"), (")", "\n)"), ("[", "[\n \n"), ("'s'", "'''s\nt'''"), ("{", "{\n\n")):
        if a in src:
            yield src.replace(a, b)
    for pre in LIFT_PRE:
        for post in LIFT_POST:
            if pre or post:
                yield pre + src + post
    yield src.replace("\n", "\r\n")
    yield src.rstrip("\n")


GATED = [
    "try:\n    pass\nexcept* E:\n    pass\n", "type X = int\n", "def f[T](a): pass\n", "class A[T]: pass\n", "type X[T] = list[T]\n",
    "with (a as b, c as d): pass\n", "match a:\n    case 1: pass\n", "x = (y := 1)\n", "def f(a, /): pass\n", "print(f'{a=}')\n",
    "@a[0]\ndef f(): pass\n", "x[*a]\n", "def f(*a: *T): pass\n",
]


def cases(unit: tuple):
    if unit[0] == "lift":
        from ..explore import tokspace

        for s, _ in tokspace.expand(unit[1:]):
            for t in lift(s):
                yield t, "exec"
    elif unit[0] == "gated":
        for s in GATED:
            for v in ((3, 8), (3, 9), (3, 10), (3, 11), (3, 12)):
                yield {"src": s, "mode": "exec", "py_version": list(v)}
    elif unit[0] == "chr" and unit[2] != "bare":
        from ..explore import charspace

        for s in charspace.expand(unit):
            yield s, "exec"
    else:
        yield from _diff.cases(unit)


def run_unit(unit: tuple, acc: Any) -> None:
    for case in acc.watch(cases(unit)):
        check_case(case, acc)


def check_case(case: Any, acc: Any) -> None:
    opts = {}
    if isinstance(case, dict):
        src, mode = case["src"], case.get("mode", "exec")
        if case.get("py_version"):
            opts["py_version"] = tuple(case["py_version"])
    else:
        src, mode = case
    if not opts and run.python_lexicon(src):
        st, _ = run.cpy(src, mode)
        if st == run.TREE:
            acc.count("skipped:valid-python")
            return
    st, e = run.ours(src, mode, **opts)
    acc.ran()
    if st != run.SYNTAX:
        acc.count("not-a-syntax-error:" + st)
        return
    acc.nontrivial((src, mode))
    acc.count("syntax-error")
    r = errshape.check(e, src)
    if r is not None:
        c = {"src": src, "mode": mode}
        if opts:
            c["py_version"] = list(opts["py_version"])
        acc.violation(r[0] + " @" + _where(e), c, r[1])


def _where(e: BaseException) -> str:
    from ..oracle.totality import where

    return where(e)
