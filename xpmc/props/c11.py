"""C11 — syntax errors are well-formed and point into the offending source."""
from __future__ import annotations

import keyword
import os
import pathlib
import re
import tempfile
from typing import Any

from ..explore import layout
from ..oracle import errshape, run
from . import _diff

ID = "C11"
USE = ("tok", "sub", "xsub", "asdl", "lay", "edit", "xedit", "chr", "spell")
VOCABS = ("expr", "stmt", "defs", "match", "lit", "xsh")
SHIFT = -1
ENGINE = "rejected inputs of E-TOK (python + xonsh) + E-SUB + E-ASDL + E-LAY + E-EDIT + pylay, plus the layout lift; errshape oracle"
RULE = (
    "every input of the lexeme-sequence trees (python and xonsh vocabularies), carriers, abstract-grammar paths, layout "
    "deviations, token-edit neighbourhoods of the python and xonsh corpora and the pylay character space, plus the "
    "'layout lift': each rejected short input re-rendered with its brackets spread over lines, blank/comment lines and a "
    "multi-line string inside the span, first/last in a 3-statement file (also after f-string debug fields, which read the source-line table); the 'diagnostics' family: each "
    "erroneous snippet of the repository's own error tests (334, frozen in corpus/errors.json), plain in every such context and with each of its "
    "first identifiers replaced by six operand shapes that span lines (last line longer than the first), through parse_string and parse_file; "
    "py_version-gated syntax under low versions. "
    "Whenever SyntaxError/IndentationError is raised: message, file name, 1<=lineno<=lines+1, 1<=offset<=len(line)+1, "
    "end>=start, text begins with the source line. Non-trivial = a SyntaxError was raised (distinct texts)."
)
BOUND = {t: _diff.describe(t, USE, VOCABS, SHIFT, 2, 12_000) + "; layout lift of E-TOK expr/stmt/xsh/lit n<=" + ("2" if t == "quick" else "3") + "; indentation strings {tab,space,a,newline}^<=" + ("7" if t == "quick" else "9") + " in an if-block; diagnostics family: 334 snippets x 12 contexts + first " + ("8" if t == "quick" else "16") + " identifiers x 6 shapes x 2 contexts x 2 entry points; nasty_ff^<=" + ("3" if t == "quick" else "4") + " inside a multi-line string / f-string / bracket followed by an error" for t in ("quick", "thorough")}
ASSUMPTIONS = ["lines are split at '\\n' only; a trailing '\\r' of a CRLF line is not counted in the line length"]

LIFT_PRE = ["", "x = 1\n", "x = '''a\nb'''\n", "\n# c\n", "a = f'{x=}'\n", "print(f'''{x=\n}''', f'{y = }')\n\n"]
LIFT_POST = ["", "y = 2\n"]

# operand shapes for the diagnostics family: an operand that spans lines, whose last line is longer than its first
_PAD = " " * 24
SHAPES = ["({N},\n" + _PAD + "c)", "{N}.\\\n" + _PAD + "attr", "'''s\n" + _PAD + "t'''", "{N}(\n" + _PAD + "x)", "[\n\n {N}]", "{N}  # c"]
_IDENT = re.compile(r"(?<![\w'\"$.])[A-Za-z_]\w*(?![\w'\"(])")


def units(tier: str) -> list[tuple]:
    us = _diff.units(tier, USE, VOCABS, SHIFT, asdl_k=2, sub_cap=12_000)
    from ..explore import tokspace

    n = 2 if tier == "quick" else 3
    for v in ("expr", "stmt", "xsh", "lit"):
        for u in tokspace.units(v, n):
            us.append(("lift",) + u)
    us.append(("gated",))
    us += [("literr", i) for i in range(len(LIT_CARRIERS))]
    from ..explore import corpus

    ne = len(corpus.error_snippets())
    step = 8
    for lo in range(0, ne, step):
        us.append(("diag", lo, min(ne, lo + step), 8 if tier == "quick" else 16))
    from ..explore import charspace

    q = tier == "quick"
    us += charspace.units("indent4", "ifblock", 7 if q else 9, split=3)
    for carrier in ("str3err", "fstr3err", "parenerr"):
        us += charspace.units("nasty_ff", carrier, 3 if q else 4)
    return us


# errors found while a literal is evaluated (bad escapes, an integer beyond the digit limit), with the faulty spot on the
# first, second or third line of a literal that spans lines, after text / fields / non-ASCII characters, in each kind of literal
LIT_ERRORS = ["\\x", "\\xZ1", "\\N{NOT A REAL NAME}", "\\N{", "\\u12", "\\U0001f60", "\\N"]
LIT_CARRIERS = [
    "x = 'a<E>'\n", "x = '''<E>'''\n", "x = '''a\nb <E>\nc'''\n", "x = '''a\n\n  <E>'''\n", "x = \"\"\"\u00e9\n\u00e9\u00e9 <E> z\"\"\"\n", "x = f'a<E>{b}'\n", "x = f'{b}<E>'\n",
    "msg = f'''Hello {name},\n  the sign is <E>\n'''\n", "msg = f'''{a}\n{b} <E>\n\n<E>'''\n", "y = (1,\n     'a' '<E>',\n     2)\n", "z = f'{a:<E>}'\n",
    "z = f'''{a:>\n<E>}'''\n", "w = b'<E>'\n", "w = b'''a\nb<E>'''\n", "p'<E>'\n", "pf'''a\n{b}<E>'''\n", "f(x, '''s\n''' f'''t\n<E>''')\n", "x = 'ok' \\\n    '<E>'\n",
    "$(echo 'a<E>')\n", "f!(a) + '<E>'\n", "x = <N>\n", "x = [1,\n     <N>]\n", "match v:\n    case <N>:\n        pass\n", "y = -<N> + '\u00e9'\n", "x = 1; y = <N>j; z = <N>\n",
]
LIT_PRE = ["", "a = 1\n", "\u00e9 = '''m\nn'''\n\n"]


def _literr(i: int):
    car = LIT_CARRIERS[i]
    fills = LIT_ERRORS if "<E>" in car else ["9" * 4301, "1" + "0" * 5000]
    for e in fills:
        t = car.replace("<E>", e).replace("<N>", e)
        for pre in LIT_PRE:
            yield {"src": pre + t, "mode": "exec", "file": True}
            yield {"src": pre + t.rstrip("\n"), "mode": "exec", "file": True}
            yield {"src": (pre + t).replace("\n", "\r\n"), "mode": "exec", "file": True}


def lift(src: str):
    """Re-render a one-line input so that the error span crosses lines without tokens and multi-line tokens."""
    for a, b in (("(", "(\n\n  "), ("(", "(  # c\n"), (",", ",\n\n"), (")", "\n)"), ("[", "[\n \n"), ("'s'", "'''s\nt'''"), ("{", "{\n\n")):
        if a in src:
            yield src.replace(a, b)
    for pre in LIFT_PRE:
        for post in LIFT_POST:
            if pre or post:
                yield pre + src + post
    yield src.replace("\n", "\r\n")
    yield src.rstrip("\n")
    for tail in ("   ", "\f", "\t", "  # c", "\\"):  # the error is reported at the end of the input, on a line without newline
        yield src.rstrip("\n") + "\n" + tail


GATED = [
    "try:\n    pass\nexcept* E:\n    pass\n", "type X = int\n", "def f[T](a): pass\n", "class A[T]: pass\n", "type X[T] = list[T]\n",
    "with (a as b, c as d): pass\n", "match a:\n    case 1: pass\n", "x = (y := 1)\n", "def f(a, /): pass\n", "print(f'{a=}')\n",
    "@a[0]\ndef f(): pass\n", "x[*a]\n", "def f(*a: *T): pass\n",
]


def cases(unit: tuple):
    if unit[0] == "literr":
        yield from _literr(unit[1])
        return
    if unit[0] == "lift":
        from ..explore import tokspace

        for s, _ in tokspace.expand(unit[1:]):
            for t in lift(s):
                yield t, "exec"
    elif unit[0] == "diag":
        from ..explore import corpus

        for snip in corpus.error_snippets()[unit[1] : unit[2]]:
            for pre in LIFT_PRE:
                for post in LIFT_POST:
                    yield {"src": pre + snip + post, "mode": "exec", "file": True}
            for tail in ("   ", "\f", "\t", "  # c", "\\", "    \n   "):
                yield {"src": snip + tail, "mode": "exec", "file": True}
                yield {"src": snip.rstrip("\n") + tail, "mode": "exec", "file": True}
            spots = [m for m in _IDENT.finditer(snip) if not keyword.iskeyword(m.group()) and m.group() not in keyword.softkwlist]
            for m in spots[: unit[3]]:
                for shape in SHAPES:
                    v = snip[: m.start()] + shape.replace("{N}", m.group()) + snip[m.end() :]
                    yield {"src": v, "mode": "exec", "file": True}
                    yield {"src": LIFT_PRE[4] + v + "y = 2\n", "mode": "exec", "file": True}
    elif unit[0] == "gated":
        for s in GATED:
            for v in ((3, 8), (3, 9), (3, 10), (3, 11), (3, 12)):
                yield {"src": s, "mode": "exec", "py_version": list(v)}
    elif unit[0] == "chr" and unit[2] != "bare":
        from ..explore import charspace

        for s in charspace.expand(unit):
            yield s, "exec"
    else:
        yield from _diff.cases(unit)


def run_unit(unit: tuple, acc: Any) -> None:
    for case in acc.watch(cases(unit)):
        check_case(case, acc)


def check_case(case: Any, acc: Any) -> None:
    opts = {}
    if isinstance(case, dict):
        src, mode = case["src"], case.get("mode", "exec")
        if case.get("py_version"):
            opts["py_version"] = tuple(case["py_version"])
    else:
        src, mode = case
    if not opts and run.python_lexicon(src):
        st, _ = run.cpy(src, mode)
        if st == run.TREE:
            acc.count("skipped:valid-python")
            return
    st, e = run.ours(src, mode, **opts)
    acc.ran()
    if st != run.SYNTAX:
        acc.count("not-a-syntax-error:" + st)
        return
    acc.nontrivial((src, mode))
    acc.count("syntax-error")
    r = errshape.check(e, src)
    if r is not None:
        c = {"src": src, "mode": mode}
        if opts:
            c["py_version"] = list(opts["py_version"])
        acc.violation(r[0] + " @" + _where(e), c, r[1])
        return
    if isinstance(case, dict) and case.get("file"):
        # the same text through parse_file: the error must be as well-formed there
        ef = _file_error(src)
        acc.ran()
        acc.count("file:" + type(ef).__name__)
        if isinstance(ef, SyntaxError):
            r = errshape.check(ef, src)
            if r is not None:
                acc.violation(r[0] + " [parse_file] @" + _where(ef), {"src": src, "mode": mode, "file": True}, r[1])


_TMP: str | None = None


def _file_error(src: str) -> BaseException | None:
    global _TMP
    from peg_parser.parser import XonshParser

    if _TMP is None:
        _TMP = tempfile.mkdtemp(prefix="xpmc-c11-", dir="/dev/shm" if os.path.isdir("/dev/shm") else None)
        import atexit
        import shutil

        atexit.register(shutil.rmtree, _TMP, True)
    p = os.path.join(_TMP, f"f{os.getpid()}.py")
    with open(p, "w", encoding="utf-8", newline="") as f:
        f.write(src)
    try:
        XonshParser.parse_file(pathlib.Path(p))
    except BaseException as e:  # noqa: BLE001
        return e
    return None


def _where(e: BaseException) -> str:
    from ..oracle.totality import where

    return where(e)
