"""Shared enumeration for the differential properties C01 / C02 / C04 / C11 (DESIGN §3).

cases(unit) yields (text, mode) pairs; which explorers and bounds a property uses is its own choice.
"""
from __future__ import annotations

from typing import Iterator

from ..explore import asdl, charspace, edits, layout, pylib, spell, subspace, tokspace

TOK_BOUNDS = {
    # vocab: (quick n, thorough n)
    "expr": (4, 5), "stmt": (3, 4), "defs": (4, 5), "match": (4, 5), "lit": (4, 5), "xsh": (3, 4),
}


def units(tier: str, use: tuple[str, ...], tok_vocabs: tuple[str, ...] = ("expr", "stmt", "defs", "match", "lit"),
          tok_shift: int = 0, asdl_k: int | None = None, sub_cap: int | None = None) -> list[tuple]:
    q = tier == "quick"
    us: list[tuple] = []
    if "tok" in use:
        for v in tok_vocabs:
            n = max(2, TOK_BOUNDS[v][0 if q else 1] + (tok_shift if q else 0))
            us += tokspace.units(v, n)
    if "sub" in use:
        us += subspace.units(tier, cap=sub_cap if q else None)
    if "xsub" in use:
        us += subspace.xunits(tier, cap=sub_cap if q else None)
    if "asdl" in use:
        us += asdl.units((asdl_k if q and asdl_k else 3))
    if "lay" in use:
        us += layout.units(tier)
    if "edit" in use:
        us += edits.token_units(tier, xonsh="xedit" in use)
    elif "xedit" in use:
        us += edits.token_units(tier, xonsh=True, python=False)
    if "cedit" in use:
        us += edits.char_units(tier)
    if "chr" in use:
        us += charspace.units("pylay", "bare", 4 if q else 5)
    if "lib" in use:
        us += pylib.units(tier, "plain")
    if "spell" in use:
        us += spell.number_units(5 if q else 6) + spell.prefix_units() + spell.ident_units()
    return us


def cases(unit: tuple) -> Iterator[tuple[str, str]]:
    k = unit[0]
    if k == "tok":
        for s, _ in tokspace.expand(unit):
            yield s, "exec"
    elif k in ("sub", "xsub"):
        for s in subspace.expand(unit):
            yield s, "exec"
    elif k == "asdl":
        yield from asdl.expand(unit)
    elif k == "lay":
        for _, s in layout.expand(unit):
            yield s, "exec"
    elif k == "tedit":
        for _, s in edits.token_expand(unit):
            yield s, "exec"
    elif k == "cedit":
        for s in edits.char_expand(unit):
            yield s, "exec"
    elif k == "chr":
        for s in charspace.expand(unit):
            yield s, "exec"
    elif k == "pylib":
        yield from pylib.expand(unit)
    elif k == "spell":
        for s in spell.expand(unit):
            yield s, "exec"
    else:
        raise ValueError(unit)


def describe(tier: str, use: tuple[str, ...], tok_vocabs: tuple[str, ...], tok_shift: int = 0, asdl_k: int | None = None,
             sub_cap: int | None = None) -> str:
    q = tier == "quick"
    parts = []
    if "tok" in use:
        parts.append("E-TOK " + ", ".join(f"{v} n<={max(2, TOK_BOUNDS[v][0 if q else 1] + (tok_shift if q else 0))}" for v in tok_vocabs))
    if "sub" in use:
        parts.append(f"E-SUB {len(subspace.CARRIERS)} carriers, |V|^n<={(sub_cap if q and sub_cap else subspace.CAP[tier])}")
    if "xsub" in use:
        parts.append(f"{len(subspace.XCARRIERS)} xonsh carriers (help chains, env targets, subprocess words, macro arguments)")
    if "asdl" in use:
        parts.append(f"E-ASDL paths k={(asdl_k if q and asdl_k else 3)}")
    if "lay" in use:
        parts.append("E-LAY single deviations" + ("" if q else " + pairs on the 160 shortest programs"))
    if "edit" in use:
        parts.append("E-EDIT token edits of " + ("300 shortest" if q else "all 644") + " corpus statements")
    if "xedit" in use:
        parts.append("E-EDIT token edits of the xonsh corpus")
    if "cedit" in use:
        parts.append("character edits of the corpus")
    if "chr" in use:
        parts.append("E-CHR pylay^<=" + ("4" if q else "5"))
    if "lib" in use:
        parts.append(pylib.describe(tier))
    if "spell" in use:
        parts.append(spell.describe(5 if q else 6))
    return "; ".join(parts)
