"""C04 — every returned tree is a well-formed, compilable CPython AST."""
from __future__ import annotations

from typing import Any

from ..oracle import run, wellformed
from . import _diff

ID = "C04"
USE = ("tok", "sub", "xsub", "asdl", "lay", "edit", "xedit", "chr")
VOCABS = ("expr", "stmt", "defs", "match", "lit", "xsh")
ENGINE = "accepted inputs of E-TOK (incl. xonsh) + E-SUB + E-ASDL + E-LAY + E-EDIT (python and xonsh corpus) + xonsh constructs in every one-hole context; compile() + structural walk"
RULE = (
    "every input of the python and xonsh lexeme-sequence trees, the carriers, the abstract-grammar paths, the layout "
    "deviations and the token-edit neighbourhoods of the python and xonsh corpora, plus every xonsh construct substituted "
    "into every one-hole context and binding-target context; on each ACCEPTED input: compile(tree) raises neither "
    "TypeError nor ValueError, a SyntaxError from compile(tree) is matched by compile(ast.unparse(tree)), and an "
    "independent walk checks required fields, list-typed fields, element sorts and complete in-source spans. "
    "Non-trivial = accepted inputs (distinct (text, mode) pairs)."
)
SHIFT = -1  # quick tier: one lexeme shorter than C01 for the python vocabularies (C01 compares those trees completely)
BOUND = {t: _diff.describe(t, USE, VOCABS, SHIFT) + "; xonsh constructs x one-hole contexts depth <=2; C06 piece sequences <=" + ("3" if t == "quick" else "4") + "; C07 macro inputs; C14 statement pairs" for t in ("quick", "thorough")}
ASSUMPTIONS = ["CPython 3.12.1's compile() AST validator is the structural reference", "python-lexicon inputs rejected by CPython are skipped (C02 covers their rejection)"]


def units(tier: str) -> list[tuple]:
    from . import c05, c06, c07, c14

    us = _diff.units(tier, USE, VOCABS, SHIFT) + c05.context_units(tier)
    # accepted inputs of the xonsh explorers (C06 piece algebra and dictionary, C07 macros, C14 statement sequences)
    us += [("x06", u) for u in c06.units(tier) if u[0] in ("alg", "dict")]
    us += [("x07", u) for u in c07.units("quick")]
    us += [("x14", u) for u in c14.units("quick")]
    return us


def cases(unit: tuple):
    if unit[0] == "ctx":
        from . import c05

        for c in c05.cases(unit):
            yield c["src"], "exec"
    elif unit[0] == "x06":
        from . import c06

        for c in c06.cases(unit[1]):
            yield c["src"], "exec"
    elif unit[0] == "x07":
        from . import c07

        for c in c07.cases(unit[1]):
            yield (c["src"] if "src" in c else c07._with_src(c)[0]), "exec"
    elif unit[0] == "x14":
        from . import c14

        P = c14.pool()
        for idx in c14.cases(unit[1]):
            if len(idx) == 2:
                yield "".join(P[i] for i in idx), "exec"
    else:
        yield from _diff.cases(unit)


def run_unit(unit: tuple, acc: Any) -> None:
    for case in acc.watch(cases(unit)):
        check_case(case, acc)


def check_case(case: Any, acc: Any) -> None:
    src, mode = (case["src"], case.get("mode", "exec")) if isinstance(case, dict) else case
    if run.python_lexicon(src):
        st, _ = run.cpy(src, mode)
        if st != run.TREE:
            acc.count("skipped:cpython-rejects")
            return
    st, tree = run.ours(src, mode)
    acc.ran()
    if st != run.TREE:
        acc.count("rejected")
        return
    acc.nontrivial((src, mode))
    acc.count("accepted")
    c = {"src": src, "mode": mode}
    r = wellformed.walk_check(tree, src)
    if r is not None:
        acc.violation(r[0], c, r[1])
        return
    r = wellformed.compile_check(tree, mode)
    if r is not None:
        acc.violation(r[0], c, r[1])
