"""C04 — every returned tree is a well-formed, compilable CPython AST."""
from __future__ import annotations

from typing import Any

from ..oracle import run, wellformed
from . import _diff

ID = "C04"
USE = ("tok", "sub", "xsub", "asdl", "lay", "edit", "xedit", "chr", "spell")
VOCABS = ("expr", "stmt", "defs", "match", "lit", "xsh")
ENGINE = "accepted inputs of E-TOK (incl. xonsh) + E-SUB + E-ASDL + E-LAY + E-EDIT (python and xonsh corpus) + xonsh constructs in every one-hole context; compile() + structural walk"
RULE = (
    "every input of the python and xonsh lexeme-sequence trees, the carriers, the abstract-grammar paths, the layout "
    "deviations and the token-edit neighbourhoods of the python and xonsh corpora, plus every xonsh construct substituted "
    "into every one-hole context and binding-target context; on each ACCEPTED input: compile(tree) raises neither "
    "TypeError nor ValueError, a SyntaxError from compile(tree) is matched by compile(ast.unparse(tree)), and an "
    "independent walk checks required fields, list-typed fields, element sorts and complete in-source spans. "
    "Non-trivial = accepted inputs (distinct (text, mode) pairs)."
)
SHIFT = -1  # quick tier: one lexeme shorter than C01 for the python vocabularies (C01 compares those trees completely)
BOUND = {t: _diff.describe(t, USE, VOCABS, SHIFT) + "; xonsh constructs x one-hole contexts depth <=2; C06 piece sequences <=" + ("3" if t == "quick" else "4") + "; C07 macro inputs; C14 statement pairs" for t in ("quick", "thorough")}
ASSUMPTIONS = ["CPython 3.12.1's compile() AST validator is the structural reference", "python-lexicon inputs rejected by CPython are skipped (C02 covers their rejection)"]


def units(tier: str) -> list[tuple]:
    from . import c05, c06, c07, c14

    us = _diff.units(tier, USE, VOCABS, SHIFT) + c05.context_units(tier)
    # accepted inputs of the xonsh explorers (C06 piece algebra and dictionary, C07 macros, C14 statement sequences)
    us += [("x06", u) for u in c06.units(tier) if u[0] in ("alg", "dict")]
    us += [("x07", u) for u in c07.units("quick")]
    us += [("x14", u) for u in c14.units("quick")]
    us.append(("xplace",))
    return us


# places where the grammar takes an expression-like thing that is NOT an ordinary Load expression: every xonsh construct is
# put there; whatever is accepted must still be a tree that compile() takes
XPLACES = [
    "match w:\n    case {H}:\n        pass\n", "match w:\n    case ({H}, q) as x:\n        pass\n", "match w:\n    case {{{H}: 1}}:\n        pass\n",
    "match w:\n    case C({H}, k={H}):\n        pass\n", "match w:\n    case [{H}, *_] | {H}:\n        pass\n", "match {H}:\n    case _:\n        pass\n",
    "match w:\n    case _ if {H}:\n        pass\n", "@{H}\ndef f(): pass\n", "def f(a={H}, *, b: {H} = {H}) -> {H}: pass\n", "class C({H}, metaclass={H}): pass\n",
    "x: {H} = {H}\n", "del {H}\n", "del ({H}), a\n", "global {H}\n", "import {H}\n", "from a import {H}\n", "{H} += {H}\n", "({H} := 1)\n", "[a for a in {H} if {H}]\n",
    "lambda {H}: 0\n", "lambda a={H}: {H}\n", "x[{H}:{H}, {H}]\n", "f(*{H}, **{H})\n", "{{**{H}, {H}: {H}}}\n", "try:\n    pass\nexcept {H} as e:\n    pass\n",
    "try:\n    pass\nexcept* {H}:\n    pass\n", "raise {H} from {H}\n", "assert {H}, {H}\n", "with {H}:\n    pass\n", "async def g():\n    await {H}\n    yield {H}\n",
    "def g():\n    return {H}\n    yield from {H}\n", "type X = {H}\n", "def f[T: {H}](): pass\n", "print(f'{{{H}}}', f'{{a:{{{H}}}}}')\n", "for {H} in {H}:\n    pass\nelse:\n    {H}\n",
    "while {H}:\n    break\n", "x = {H} if {H} else {H}\n", "x = not {H} or -{H} ** {H}\n", "x = {H} < {H} is not {H} in {H}\n", "x = *{H},\n", "{H}.a.b = {H}[0] = 1\n",
]


def cases(unit: tuple):
    if unit[0] == "ctx":
        from . import c05

        for c in c05.cases(unit):
            yield c["src"], "exec"
    elif unit[0] == "x06":
        from . import c06

        for c in c06.cases(unit[1]):
            yield c["src"], "exec"
    elif unit[0] == "x07":
        from . import c07

        for c in c07.cases(unit[1]):
            yield (c["src"] if "src" in c else c07._with_src(c)[0]), "exec"
    elif unit[0] == "xplace":
        from . import c05

        for con, _py, _span in c05.CONSTRUCTS:
            for place in XPLACES:
                yield place.replace("{{", "\0").replace("}}", "\1").replace("{H}", con).replace("\0", "{").replace("\1", "}"), "exec"
    elif unit[0] == "x14":
        from . import c14

        P = c14.pool()
        for idx in c14.cases(unit[1]):
            if len(idx) == 2:
                yield "".join(P[i] for i in idx), "exec"
    else:
        yield from _diff.cases(unit)


def run_unit(unit: tuple, acc: Any) -> None:
    for case in acc.watch(cases(unit)):
        check_case(case, acc)


def check_case(case: Any, acc: Any) -> None:
    src, mode = (case["src"], case.get("mode", "exec")) if isinstance(case, dict) else case
    if run.python_lexicon(src):
        st, _ = run.cpy(src, mode)
        if st != run.TREE:
            acc.count("skipped:cpython-rejects")
            return
    st, tree = run.ours(src, mode)
    acc.ran()
    if st != run.TREE:
        acc.count("rejected")
        return
    acc.nontrivial((src, mode))
    acc.count("accepted")
    c = {"src": src, "mode": mode}
    r = wellformed.walk_check(tree, src)
    if r is not None:
        acc.violation(r[0], c, r[1])
        return
    r = wellformed.compile_check(tree, mode)
    if r is not None:
        acc.violation(r[0], c, r[1])
