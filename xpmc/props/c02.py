"""C02 — no over-acceptance: text in the Python lexicon that CPython rejects is rejected."""
from __future__ import annotations

import re
from typing import Any

from ..oracle import run
from . import _diff

ID = "C02"
USE = ("tok", "sub", "asdl", "lay", "edit", "chr", "spell")
VOCABS = ("expr", "stmt", "defs", "match", "lit")
ENGINE = "E-TOK + E-SUB + E-ASDL(rejected) + E-LAY + E-EDIT, accept/raise verdict against ast.parse"
RULE = (
    "the same spaces as C01 (lexeme-sequence trees, sub-grammar carriers, abstract-grammar paths, layout deviations, "
    "the whole single-token edit neighbourhood of the corpus: prefixes, deletions, transpositions, replacements, "
    "insertions). Domain: no '$', '?', lone '!', backtick, '&&', '||', '@(' or p-prefixed string in the text, both modes "
    "where applicable. Oracle: CPython raises SyntaxError => this parser raises. Non-trivial = rejected by CPython "
    "inside the domain (distinct (text, mode) pairs)."
)
SHIFT = -1  # quick tier: E-TOK one lexeme shorter than C01 (rejected inputs take the slow two-pass path)
BOUND = {t: _diff.describe(t, USE, VOCABS, SHIFT, 2, 12_000) for t in ("quick", "thorough")}
ASSUMPTIONS = ["CPython 3.12.1's ast.parse is the reference; only the accept/raise verdict is compared"]


def units(tier: str) -> list[tuple]:
    return _diff.units(tier, USE, VOCABS, SHIFT, asdl_k=2, sub_cap=12_000) + [("fstr", 0), ("fstr", 1), ("numword",)]


def cases(unit: tuple):
    if unit[0] == "fstr":
        # C10's f-string family: the texts CPython rejects must be rejected here too (blanks where a field does not allow
        # them, fields nested too deeply in format specs, stray braces, bad conversions ...)
        from . import c10

        for s in (c10.light_cases() if unit[1] == 0 else c10.blank_insertions()):
            yield {"src": s, "mode": "exec", "fstr": True}
        return
    if unit[0] == "numword":
        # a word written right against a numeric literal: CPython's tokenizer refuses it unless the word is one of the
        # keywords that may follow an operand; here NUMBER and NAME are separate tokens whatever lies between them
        import keyword

        words = sorted(keyword.kwlist) + ["abc", "_", "\u00e9", "match", "case", "type", "j", "e5", "x1", "b1", "L"]
        numbers = ["0", "1", "1.", "1e5", "0x1f", "1j", "0b1", "0o7", "1_0", ".5", "1.5J"]
        frames = ["x = {N}{W} y\n", "x = {N}{W}\n", "match q:\n    case {N}{W} z:\n        pass\n", "match q:\n    case ({N}{W} z) | 2:\n        pass\n",
                  "with {N}{W} z:\n    pass\n", "x = [{N}{W} x in y]\n", "x = {N}{W} 2\n", "x = a if {N}{W} 2\n", "x = -{N}{W} z\n",
                  "try:\n    pass\nexcept {N}{W} e:\n    pass\n", "x = {N}{W}.real\n", "f({N}{W} z)\n"]
        for n in numbers:
            for w in words:
                for fr in frames:
                    yield fr.replace("{N}", n).replace("{W}", w), "exec"
        return
    yield from _diff.cases(unit)


def run_unit(unit: tuple, acc: Any) -> None:
    for case in acc.watch(cases(unit)):
        check_case(case, acc)


_MSG = re.compile(r"'[^']*'|\"[^\"]*\"|\d+")


def check_case(case: Any, acc: Any) -> None:
    src, mode = (case["src"], case.get("mode", "exec")) if isinstance(case, dict) else case
    # the '!' of an f-string conversion is a Python lexeme there (the lexicon test is made on characters)
    lex = src.replace("!", "") if isinstance(case, dict) and case.get("fstr") else src
    if not run.python_lexicon(lex) or "\x00" in src:
        acc.count("outside:lexicon")
        return
    st, ref = run.cpy(src, mode)
    if st != run.SYNTAX:
        acc.count("cpython:" + st)
        return
    acc.nontrivial((src, mode))
    st, tree = run.ours(src, mode)
    acc.ran()
    if st != run.TREE:
        acc.count("both-reject")
        return
    acc.count("OVER-ACCEPT")
    msg = _MSG.sub("#", str(ref.msg))[:80]
    acc.violation(f"OVER-ACCEPT {mode} {type(ref).__name__}: {msg}", {"src": src, "mode": mode}, run.exc_brief(ref))
