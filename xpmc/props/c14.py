"""C14 — statements parse independently: parse(A+B) = parse(A) then line-shifted parse(B)."""
from __future__ import annotations

import ast
import copy
import itertools
from typing import Any, Iterator

from ..explore import corpus
from ..oracle import run

ID = "C14"
ENGINE = "all sequences over a pool of complete Python and xonsh statements; whole-vs-parts oracle (no expected trees)"
RULE = (
    "a pool of complete top-level statements - one per Python statement kind and per xonsh statement form (subprocess "
    "statements, env assignments, call / with / subprocess macros, path literals, help, search paths, f-strings, "
    "multi-line strings) plus the xonsh test corpus; ALL sequences up to the length bound. Oracle: "
    "dump(parse(A+B+..).body) == dump(parse(A).body) + line-shifted dump(parse(B).body) + .., with positions. "
    "Non-trivial = sequences of >= 2 statements whose parts all parse alone (distinct sequences)."
)
BOUND = {"quick": "all sequences of length <= 2 over the pool; length 3 = representative statement, any stateful statement (macro, path literal, f-string, multi-line string, search path), representative statement",
         "thorough": "all sequences of length <= 3"}
ASSUMPTIONS = ["every pool entry has a non-empty body and ends with a newline; entries that do not parse alone are dropped (counted)"]


def pool() -> list[str]:
    extra = [s for s in corpus.xonsh_tests() if s.endswith("\n") and s.count("\n") <= 3]
    seen: dict[str, None] = {}
    for s in corpus.POOL + extra + SPECIAL:
        seen.setdefault(s, None)
    return list(seen)


# statement forms whose implementation keeps state across tokens (C13/C14 anchors)
SPECIAL = [
    # statements that read the source-line table or carry layout the tokenizer handles specially
    "y = f'{x=}'\n",
    "print(f'{a + b = }', f'''{c =\n}''')\n",
    "\\\nx = 1\n",
    "def f():\n    \\\n    return 1\n",
    "x = 1 + \\\n    2\n",
    "# c\nx = 1  # t\n",
    "x = [1,\n\n  # c\n  2]\n",
    "\fx = 1\n",
    "if a:\n\tb\n",
    "with! a:\n    b\n    # still in the block\n",
    "with! a:\n    # c\n\n    b\n\n",
    "if z:\n    with! a:\n        b\n        # in the block\n",
    "s = 'é'; $X = ${'ü'}\n",
    "with! a:\n\tb\n",
    "if z:\n\twith! a:\n\t\tb\n\t\t# in\n",
    "  # c\ny = 1\n",
    "      # deep\n\n# flat\ny = 2\n",
    "$(echo!)\n",
    "r = ![pwd!] or $(echo! )\n",
    "'c'\n",
    "p'a' pf'b{c}'\n",
    "pf'a{b}' 'c'\n",
    "x = f'{a}' pf'{b}'\n",
    # every position of a p / pf part in an implicit concatenation, followed (in sequences) by statements that open with
    # a plain string, an f-string, a string nested in an f-string field
    "a = '/usr/' pf'{name}'\n", "b = f'{x}!'\n", "c = f\"{'in'}\" 't'\n", "d = pf'a' f\"{'x'}\"\n", "e = 's' f'{t}' pf'{u}' 'v'\n", "def g():\n    return f'{q}' 'r'\n",
    "with! m: \n    body\n", "with! m:  # note\n    body\n", "f!(a \\\n b, c)\n", "$(echo! a \\\n  b)\n",
    "$(echo!)\n",
    "![make!]\n",
    "r = !(sudo! )\n",
    "f!()\n",
    "f!(a,)\n",
    "g!(x)(y)\n",
    "with! a as b: pass\n",
    "with! ctx:\n    body\n\n    more\n",
    "if a:\n    with! b:\n        raw\n    c = 1\n",
    "def f():\n    return $(ls)\n",
    "x = '''a\n  b\n''' + p'c'\n",
    "y = f'''a\n{b}\n''' ; z = 1\n",
    "a = (b,\n     $X)\n",
    "$A = $B = $(c)\n",
    "for i in $(ls).split(): $[echo @(i)]\n",
    "x = 1 if y else 2; w = `*.py`\n",
]
REPRESENTATIVE = [
    "x = 1\n", "pass\n", "if a:\n    b\nelif c:\n    d\nelse:\n    e\n", "print(a.b[0], *c, **d)\n", "s = '''multi\nline'''\n",
    "y = f'{a!r:>{w}} b'\n", "$(ls -l)\n", "f!(a, b)\n", "with! ctx as c:\n    raw text here\n    more $ lines\n", "p = p'/tmp'\n",
    "q = pf'/tmp/{a}'\n", "range?\n", "x = $(echo! a 'b')\n", "'c'\n",
]
STATEFUL = ("!(", "![", "with!", "p'", 'p"', "pf", "f'", 'f"', "!)", "!]", "'''", "`", "\\\n", "\f", "# c")


def units(tier: str) -> list[tuple]:
    n = len(pool())
    return [("seq", i, tier) for i in range(n)]


_TREES: dict[int, Any] = {}


def _part(i: int) -> Any:
    if i not in _TREES:
        st, t = run.ours(pool()[i], "exec")
        _TREES[i] = t if st == run.TREE and t.body else None
    return _TREES[i]


def cases(unit: tuple) -> Iterator[tuple[int, ...]]:
    _, i, tier = unit
    P = pool()
    n = len(P)
    yield (i,)
    for j in range(n):
        yield (i, j)
    if tier == "thorough":
        for j in range(n):
            for k in range(n):
                yield (i, j, k)
    else:
        # quick: triples only around a stateful middle statement, with representative neighbours
        reps = [k for k, st in enumerate(P) if st in REPRESENTATIVE]
        if i in reps:
            for j in range(n):
                if any(t in P[j] for t in STATEFUL):
                    for k in reps:
                        yield (i, j, k)


def run_unit(unit: tuple, acc: Any) -> None:
    for case in acc.watch(cases(unit)):
        check_case(case, acc)


_DUMPS: dict[tuple[int, int], list[str]] = {}


def _shifted(i: int, off: int) -> list[str]:
    key = (i, off)
    if key not in _DUMPS:
        t = copy.deepcopy(_part(i))
        if off:
            ast.increment_lineno(t, off)
        _DUMPS[key] = [ast.dump(s, include_attributes=True) for s in t.body]
        if len(_DUMPS) > 20000:
            _DUMPS.clear()
    return _DUMPS[key]


def check_case(case: Any, acc: Any) -> None:
    idx = tuple(case["seq"]) if isinstance(case, dict) else tuple(case)
    P = pool()
    if any(_part(i) is None for i in idx):
        acc.count("outside:part-does-not-parse-alone")
        return
    if len(idx) == 1:
        acc.count("single")
        return
    if any(_joins_block(P[a], P[b]) for a, b in zip(idx, idx[1:])):
        # a with-macro block takes the blank lines after it (the repository's own test pins that) and, like any block, the
        # comment lines indented as deep as itself: a following part that opens with such lines is not a part of its own
        acc.count("outside:part-opens-with-lines-of-the-preceding-raw-block")
        return
    src = "".join(P[i] for i in idx)
    acc.nontrivial(idx)
    st, whole = run.ours(src, "exec")
    acc.ran()
    c = {"seq": list(idx), "src": src}
    if st != run.TREE:
        acc.violation(f"WHOLE-REJECTED {type(whole).__name__} after={_form(P[idx[-2]])}", c, run.exc_brief(whole), text=src)
        return
    want: list[str] = []
    off = 0
    for i in idx:
        want += _shifted(i, off)
        off += P[i].count("\n")
    got = [ast.dump(s, include_attributes=True) for s in whole.body]
    if got == want:
        acc.count("equal")
        return
    if len(got) != len(want):
        sig = "BODY statement-count"
    else:
        k = next(k for k in range(len(want)) if got[k] != want[k])
        # which part does statement k belong to?
        n = 0
        part = 0
        for p, i in enumerate(idx):
            n += len(_part(i).body)
            if k < n:
                part = p
                break
        sig = f"BODY statement-differs part={part} after={_form(P[idx[part - 1]]) if part else 'start'}"
    acc.violation(sig, c, {"got": got[:3], "want": want[:3]}, text=src)


def _joins_block(prev: str, nxt: str) -> bool:
    """prev ends in the block of a with-macro and nxt opens with a blank line or a comment indented at least as deep."""
    if "with!" not in prev:
        return False
    lines = prev.split("\n")
    head = max(i for i, ln in enumerate(lines) if "with!" in ln)
    body = [ln for ln in lines[head + 1 :] if ln.strip() and not ln.strip().startswith("#")]
    if not body:
        return False  # the one-line form: the macro ends with its line
    width = lambda ln: len(ln[: len(ln) - len(ln.lstrip())].expandtabs(8))  # noqa: E731
    block = width(body[0])
    first = nxt.split("\n")[0]
    return not first.strip() or (first.strip().startswith("#") and width(first) >= block)


def _form(stmt: str) -> str:
    for t in ("with!", "!(", "![", "$(", "$[", "pf", "p'", 'p"', "f'", 'f"', "'''", "`", "?"):
        if t in stmt:
            return t
    return "python"
