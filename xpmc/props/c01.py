"""C01 — pure-Python sources parse to exactly CPython's AST (types, fields, spans)."""
from __future__ import annotations

import re
from typing import Any

from ..oracle import astcmp, run
from . import _diff, _lib

ID = "C01"
USE = ("tok", "sub", "asdl", "lay", "edit", "chr", "lib", "spell")
VOCABS = ("expr", "stmt", "defs", "match", "lit")
ENGINE = "E-TOK + E-SUB + E-ASDL + E-LAY + E-EDIT, complete tree comparison (astcmp) against ast.parse"
RULE = (
    "all lexeme sequences of five Python vocabularies up to the length bound, all fillings of 32 sub-grammar carriers, "
    "all parent-field-child paths (k=3) of Python's abstract grammar rendered by ast.unparse (exec and eval mode), every "
    "single layout deviation and every single token edit of the corpus programs; every module of the interpreter's own "
    "standard library that holds no f-string, as a whole file (a failing file is reduced to its first failing statement); 20 nesting "
    "families at depths 10 .. 50 under the interpreter's default recursion limit. Domain: ast.parse accepts, no xonsh-only "
    "lexeme, no f-string, no '@('. Oracle: node types, every field, constants by (type, repr) and all four position "
    "attributes equal. Non-trivial = accepted by CPython and inside the domain (distinct (text, mode) pairs)."
)
BOUND = {t: _diff.describe(t, USE, VOCABS) for t in ("quick", "thorough")}
ASSUMPTIONS = [
    "CPython 3.12.1's ast.parse (the interpreter running the check) is the reference",
    "f-strings are excluded here (C10); texts containing '@(' / BOM / NUL are outside the domain",
]


def units(tier: str) -> list[tuple]:
    return _diff.units(tier, USE, VOCABS) + [("nest", i) for i in range(len(NEST))]


# nesting families, parsed under the interpreter's DEFAULT recursion limit (the workers of this framework raise theirs):
# the property's domain reaches 50 levels of brackets
NEST_DEPTHS = (10, 20, 26, 27, 35, 50)
NEST = [
    lambda n: "(" * n + "1" + ")" * n + "\n", lambda n: "[" * n + "1" + "]" * n + "\n", lambda n: "f(" * n + "1" + ")" * n + "\n",
    lambda n: "a[" * n + "1" + "]" * n + "\n", lambda n: "{1: " * n + "1" + "}" * n + "\n", lambda n: "{" * 1 + "(" * (n - 1) + "1" + ")" * (n - 1) + "}\n",
    lambda n: "x = " + "(a, " * n + "1" + ")" * n + "\n", lambda n: "(" * n + "a" + ")" * n + " = 1\n", lambda n: "[" * n + "a" + "]" * n + " = b\n",
    lambda n: "del " + "(" * n + "a" + ")" * n + "\n", lambda n: "f(k=" * n + "1" + ")" * n + "\n", lambda n: "x = " + "[1 for i in " * n + "a" + "]" * n + "\n",
    lambda n: "lambda: (" * n + "1" + ")" * n + "\n", lambda n: "x = " + "(yield " * 1 + "(" * (n - 1) + "1" + ")" * n + "\n",
    lambda n: "match a:\n    case " + "[" * n + "1" + "]" * n + ":\n        pass\n", lambda n: "x = " + "-(" * n + "1" + ")" * n + "\n",
    lambda n: "".join(" " * i + "if a:\n" for i in range(n)) + " " * n + "pass\n", lambda n: "x = " + "(a if " * n + "b" + " else c)" * n + "\n",
    lambda n: "x: " + "list[" * n + "int" + "]" * n + "\n", lambda n: "def f(a=" + "(" * n + "1" + ")" * n + "): pass\n",
]


def cases(unit: tuple):
    if unit[0] == "nest":
        for n in NEST_DEPTHS:
            yield {"src": NEST[unit[1]](n), "mode": "exec", "default_recursion_limit": True}
        return
    yield from _diff.cases(unit)


def run_unit(unit: tuple, acc: Any) -> None:
    for case in acc.watch(cases(unit)):
        check_case(case, acc)


_MSG = re.compile(r"'[^']*'|\"[^\"]*\"|\d+")


def check_case(case: Any, acc: Any) -> None:
    if isinstance(case, dict) and "pylib" in case:
        _lib.check_file(case, acc, fstrings=False)
        return
    src, mode = (case["src"], case.get("mode", "exec")) if isinstance(case, dict) else case
    if not run.c01_domain(src) or not run.python_lexicon(src):
        acc.count("outside:lexicon")
        return
    st, ref = run.cpy(src, mode)
    if st != run.TREE:
        acc.count("cpython:" + st)
        return
    acc.nontrivial((src, mode))
    if isinstance(case, dict) and case.get("default_recursion_limit"):
        import sys

        mine = sys.getrecursionlimit()
        sys.setrecursionlimit(1000)  # what a program that never touched the limit has
        try:
            st, tree = run.ours(src, mode)
        finally:
            sys.setrecursionlimit(max(mine, sys.getrecursionlimit()))
    else:
        st, tree = run.ours(src, mode)
    acc.ran()
    c = {"src": src, "mode": mode, **({"default_recursion_limit": True} if isinstance(case, dict) and case.get("default_recursion_limit") else {})}
    if st != run.TREE:
        msg = _MSG.sub("#", str(tree.msg if isinstance(tree, SyntaxError) else tree))[:80]
        acc.count("REJECTED")
        acc.violation(f"REJECTED {mode} {type(tree).__name__}: {msg}", c, run.exc_brief(tree))
        return
    d = astcmp.diff_src(tree, ref, src)
    if d is None:
        acc.count("equal")
        return
    acc.count("TREE-DIFF")
    acc.violation(f"TREE-DIFF {mode} {astcmp.sig(d[0])}", c, {"path": d[0], "ours": d[1], "cpython": d[2]})
