"""C13 — parsing is a pure function: deterministic, history-free and thread-safe."""
from __future__ import annotations

import ast
import itertools
import json
import os
import subprocess
import sys
import threading
import time
from typing import Any, Iterator

from ..core import env

ID = "C13"
ENGINE = "E-HIST (explicit-state BFS over heap fingerprints + all short call histories) and E-SCHED (deviation-bounded schedule exploration under a sys.settrace baton scheduler), oracle = outcomes of a fresh interpreter"
RULE = (
    "a pool of parse calls touching every side channel named in the anchors (plain, failing, failing macro, call / with / "
    "subprocess macros, unterminated macro, path literals, f-strings, string+f-string concatenation, multi-line string, "
    "version-gated syntax under a low py_version, eval mode, raw and non-raw f-strings of one quote style, a diagnostic of "
    "the second pass, and two inputs nested 6 levels below / above the depth at which a fresh interpreter starts to answer "
    "'too many nested ...'). Every history and every pair of threads starts in a forked copy of a process that has imported "
    "the library and parsed nothing (recursion limit pinned to 3000 in every process, calls made on a fresh thread). "
    "(0) Every pool call in four fresh interpreters under four hash seeds: equal outcomes. (1) Histories: every sequence of pool calls up to the plain bound; one long history in a single process in which every "
    "ordered pair of calls occurs consecutively; and breadth-first searches (one per first call) whose state is the "
    "canonical fingerprint of the library's process-global state (module / class attributes, defaults, closures, singleton "
    "nodes, lru_cache keys and cached values) expanded once per state up to the BFS depth; on every transition the outcome must equal the outcome of the same call in a fresh interpreter (computed "
    "under two PYTHONHASHSEEDs that must agree) and every tree returned earlier in the history must still dump "
    "identically. (2) Schedules: two threads, each one pool call, under a cooperative scheduler whose scheduling points "
    "are the 'call' events inside peg_parser; ALL schedules with at most one preemption for the ordered pairs of the bound "
    "(and two preemptions around shared-state writes in the thorough tier); each thread's outcome must equal the fresh-"
    "interpreter outcome. Non-trivial = histories of length >= 2 and schedules with a real preemption (distinct)."
)
BOUND = {
    "quick": "all histories of length <= 2 over 28 calls (plus repeats a,a,a); the all-pairs chain; fingerprint BFS depth 3 from each first call; all <=1-preemption schedules at call granularity for 16 ordered pairs; 2 pairs at line granularity on a grid of 250 points (reported as capped)",
    "thorough": "all histories of length <= 3 over 25 calls; the all-pairs chain; fingerprint BFS depth 5 from each first call (at most 4000 transitions / 600 s per root: roots that hit the cap are reported); all <=1-preemption schedules for all ordered pairs (a pair with more than 2500 schedules on an even grid, 600 s per pair: reported); 2 preemptions on 12 pairs; 12 pairs at line granularity (grid of 2500 points)",
}
ASSUMPTIONS = [
    "threads are explored at 'call' granularity under the GIL; compiled (mypyc/Cython) builds and state inside the standard "
    "library (re, textwrap) are not covered",
    "the deeply nested inputs are parsed on a fresh thread in every process, so that the stack available to them does not "
    "depend on the caller",
]
CASE_DEADLINE = 900.0  # a whole pair of threads (thousands of schedules) is one case; loaded machines are slow
CONFIRM_DEADLINE = 1200.0

POOL: list[tuple[str, str, Any]] = [
    ("x = 1\n", "exec", None),
    ("x = (1 +\n", "exec", None),
    ("def f(:\n    pass\n", "exec", None),
    ("f!(a, b)\n", "exec", None),
    ("with! ctx:\n    raw text\ny = 2\n", "exec", None),
    ("$(echo! raw text)\n", "exec", None),
    ("f!(a, b\n", "exec", None),
    ("p = p'/tmp' 'x'\n", "exec", None),
    ("q = pf'/tmp/{x}'\n", "exec", None),
    ("s = f'{a!r:>4} b' 'c'\n", "exec", None),
    ("u = 'a' f'b{x}'\n", "exec", None),
    ("t = '''multi\nline''' + 'u'\n", "exec", None),
    ("type X = int\n", "exec", (3, 9)),
    ("a if b else $(ls)", "eval", None),
    ("f!(x) = 1 2\n", "exec", None),
    ("'c'\n", "exec", None),
    ("$(echo!)\n", "exec", None),
    ("r = !(ls $HOME `*.py` @(x))\n", "exec", None),
    # the same lru_cached pattern builders under different keys: raw / non-raw f-strings of one quote style
    ("w = rf'\\N{x}'\n", "exec", None),
    ('k = f"""{a}\n"""\n', "exec", None),
    ('l = rf"""\\N{b}"""\n', "exec", None),
    ("[a = 1]\n", "exec", None),
    ("s = 'é'; $X = ${'ü'} + $(ls é)\n", "exec", None),  # nodes built by shared helpers, on a line whose columns get converted
    # literals that compare equal across types (1000 == 1000.0 == 1e3 == (1000+0j), 'a' vs b'a', True == 1): a table of
    # literal values keyed by value would hand the first one's object to the others
    ("i = 1000; t = (True, 2500)\n", "exec", None),
    ("f = 1000.0; g = 1e3; h = 2500.0; one = 1.0\n", "exec", None),
    ("c = 1000j + 1000; k = 0x3e8; s = '1000'; b = b'1000'\n", "exec", None),
]
N_FIXED = len(POOL)  # entries after this index take part in histories only (not in thread pairs)
# parse_file on ONE path whose content changes between the calls (two threads writing one file would be the harness's own race)
POOL += [
    ("a = f'{alpha=}'\n", "file:a.xsh", None),
    ("a = f'{gamma=}'; é = 1\n", "file:a.xsh", None),
    ("bb = 2 +\n", "file:a.xsh", None),
    ("x = 1\ny = 'é' + z\n", "file:b.xsh", None),
    # two errors that a pass over the finished tree would both find: which one is reported must not depend on the order in
    # which a set or dict of nodes happens to be walked (addresses vary with what was allocated before)
    ("d = x² + y³\n", "exec", None),
    ("from units import m², m³\n", "exec", None),
    ("def norm(v): return (v.x² + v.y² + v.z²) ** 0.5\n", "exec", None),
]
N_STATIC = len(POOL)  # entries after this index are the 'deep' inputs appended by expected()


def outcome_of(i: int) -> list:
    return outcome_of_call(*POOL[i])


def outcome_in_thread(i: int) -> list:
    """The call on a fresh thread: the stack depth at the call is then the same in every process and history, which makes
    the outcome of the deeply nested inputs (accepted / 'too many nested ...') a function of the text alone."""
    box: list = []
    t = threading.Thread(target=lambda: box.append(outcome_of_call(*POOL[i])))
    t.start()
    t.join()
    return box[0]


def outcome_of_call(src: str, mode: str, ver: Any) -> list:
    from peg_parser.parser import XonshParser
    from peg_parser.tokenize import TokenError

    ver = tuple(ver) if ver else None
    try:
        if mode.startswith("file:"):
            import pathlib
            import tempfile

            d = pathlib.Path(tempfile.gettempdir()) / f"xpmc-c13-{os.getpid()}"
            d.mkdir(exist_ok=True)
            p = d / mode[5:]
            try:
                with open(p, "w", encoding="utf-8", newline="") as f:
                    f.write(src)
                tree = XonshParser.parse_file(p)
            finally:
                p.unlink(missing_ok=True)
                try:
                    d.rmdir()
                except OSError:
                    pass
        else:
            tree = XonshParser.parse_string(src, mode=mode, py_version=ver)
    except SyntaxError as e:
        return ["SyntaxError", type(e).__name__, e.msg, e.lineno, e.offset, e.end_lineno, e.end_offset, e.text]
    except TokenError as e:
        return ["TokenError", repr(e.args)]
    except BaseException as e:  # noqa: BLE001
        return ["other", type(e).__name__, str(e)[:120]]
    return ["tree", ast.dump(tree, include_attributes=True), tree]


_EXPECTED: list[list] | None = None


def expected() -> list[list]:
    """Outcome of every pool call in a FRESH interpreter (two hash seeds, which must agree)."""
    global _EXPECTED
    if _EXPECTED is None:
        _add_deep_inputs()
        procs = {}
        for seed in ("0", "4711"):
            for i in range(len(POOL)):  # one fresh interpreter per (input, seed)
                procs[(seed, i)] = _fresh(POOL[i], seed)
        outs: dict[str, list] = {"0": [], "4711": []}
        for (seed, i), p in procs.items():
            so, se = p.communicate(timeout=120)
            if p.returncode != 0:
                raise RuntimeError("fresh interpreter failed: " + se[-500:])
            outs[seed].append(json.loads(so.strip().splitlines()[-1]))
        # two fresh interpreters that disagree on a call: the outcome is no function of the text (reported as a violation
        # of its own by the 'fresh' cases; histories and schedules then compare against the first of the two)
        NONDET[:] = [i for i in range(len(POOL)) if outs["0"][i] != outs["4711"][i]]
        _EXPECTED = outs["0"]
    return _EXPECTED


NONDET: list[int] = []


def check_fresh(i: int, acc: Any) -> None:
    """The same call in four fresh interpreters (four hash seeds): all outcomes must be equal."""
    procs = [_fresh(POOL[i], seed) for seed in ("0", "4711", "1", "2")]
    outs = []
    for p in procs:
        so, se = p.communicate(timeout=120)
        if p.returncode != 0:
            raise RuntimeError("fresh interpreter failed: " + se[-500:])
        outs.append(json.loads(so.strip().splitlines()[-1]))
        acc.ran()
    if any(o != outs[0] for o in outs[1:]):
        other = next(o for o in outs[1:] if o != outs[0])
        acc.violation(f"FRESH interpreters disagree on one call ({outs[0][0]} / {other[0]}) call={_name(i)}", {"fresh": i}, {"first": _short(outs[0]), "other": _short(other)})
    else:
        acc.count("fresh-agree")


_FRESH_CODE = (
    "import sys, json, threading; sys.path.insert(0, %r); sys.path.insert(0, %r)\n"
    "from xpmc.props import c13\n"
    "c13.pin_limit()\n"
    "box = []\n"
    "t = threading.Thread(target=lambda: box.append(c13.outcome_of_call(*json.loads(sys.argv[1])))); t.start(); t.join()\n"
    "o = box[0]; print(json.dumps(o[:2] if o[0] == 'tree' else o))\n"
)


def _fresh(call: tuple, seed: str) -> subprocess.Popen:
    e = dict(os.environ, PYTHONHASHSEED=seed, PYTHONDONTWRITEBYTECODE="1")
    return subprocess.Popen([env.PY, "-c", _FRESH_CODE % (env.VERIF, env.REPO), json.dumps(list(call))], stdout=subprocess.PIPE,
                            stderr=subprocess.PIPE, text=True, env=e)


def _deep(n: int) -> tuple[str, str, Any]:
    return ("(" * n + "1" + ")" * n + "\n", "exec", None)


def _add_deep_inputs() -> None:
    """Two inputs around the nesting depth at which a fresh interpreter (parse called on a fresh thread) starts to answer
    'too many nested ...': 6 levels below (accepted) and 6 levels above (rejected).  The stack a parse may use is process
    state the library could alter; these are the inputs whose outcome shows it."""
    if len(POOL) > N_STATIC:
        return

    def accepted(n: int) -> bool:
        p = _fresh(_deep(n), "0")
        so, se = p.communicate(timeout=120)
        if p.returncode != 0:
            raise RuntimeError("fresh interpreter failed: " + se[-500:])
        return json.loads(so.strip().splitlines()[-1])[0] == "tree"

    lo, hi = 4, 400
    if not accepted(lo) or accepted(hi):
        return  # no threshold inside the range: nothing to add
    while hi - lo > 1:
        mid = (lo + hi) // 2
        if accepted(mid):
            lo = mid
        else:
            hi = mid
    if lo - 6 >= 1:
        POOL.append(_deep(lo - 6))
    POOL.append(_deep(hi + 6))
    DEEP_INFO.update({"last_accepted_nesting": lo, "first_rejected_nesting": hi})


DEEP_INFO: dict = {}


TIER = "quick"


def units(tier: str) -> list[tuple]:
    global TIER
    TIER = tier
    expected()  # computed once in the parent; forked workers inherit it
    n = len(POOL)
    us: list[tuple] = [("fresh", i) for i in range(n)]
    depth = 2 if tier == "quick" else 3
    for i in range(n):
        us.append(("hist", i, depth))
    for i in range(n):
        us.append(("bfs", 3 if tier == "quick" else 5, i))
    us.append(("chain",))
    pairs = [(a, b) for a in range(N_FIXED) for b in range(N_FIXED)]  # the deep inputs have thousands of scheduling points: histories only
    if tier == "quick":
        # macro / path-literal / concatenation / failing-macro calls against plain calls and against each other
        pairs = [(3, 0), (3, 3), (3, 14), (14, 3), (4, 0), (4, 4), (4, 3), (5, 0), (5, 16), (8, 10), (8, 15), (10, 8), (7, 15), (14, 15), (6, 3), (16, 5)]
    for a, b in pairs:
        us.append(("sched", a, b, 1) if tier == "quick" else ("sched", a, b, 1, "capped"))
    if len(POOL) > N_STATIC:
        # a short call against the deeply nested input that is still accepted: process-wide settings (the recursion limit)
        # saved and restored around a parse race between threads; 2 preemptions on a grid of 12 x 11 points
        us.append(("sched", 0, N_STATIC, 2, "sampled"))
        if tier == "thorough":
            us.append(("sched", 2, N_STATIC, 2, "sampled"))
    if tier == "thorough":
        for a, b in [(3, 3), (3, 14), (14, 3), (4, 8), (8, 10), (10, 10), (5, 16), (16, 0), (14, 15), (7, 15), (8, 15), (6, 3)]:
            us.append(("sched", a, b, 2, "capped"))
    # line granularity (every line of the library's code is a scheduling point, ~4 x as many as calls): a check-then-act
    # inside one function is invisible at call granularity.  Pairs that share the string / f-string / macro machinery;
    # one preemption, on an even grid of at most SCHED_CAP points (reported as capped)
    for a, b in ([(9, 10), (3, 4)] if tier == "quick" else [(9, 10), (10, 9), (11, 11), (11, 19), (3, 4), (4, 3), (5, 16), (8, 7), (17, 17), (22, 9), (18, 20), (0, 0)]):
        us.append(("sched", a, b, 1, "capped", "line"))
    return us


def cases(unit: tuple) -> Iterator[dict]:
    k = unit[0]
    if k == "fresh":
        yield {"fresh": unit[1]}
        return
    if k == "hist":
        first, depth = unit[1], unit[2]
        yield {"hist": [first]}
        yield {"hist": [first, first, first]}
        for m in range(1, depth):
            for rest in itertools.product(range(len(POOL)), repeat=m):
                yield {"hist": [first, *rest]}
    elif k == "bfs":
        yield {"bfs": unit[1], "root": unit[2]}
    elif k == "chain":
        yield {"chain": True}
    else:
        yield {"sched": [unit[1], unit[2]], "preemptions": unit[3], **({unit[4]: True} if len(unit) > 4 else {}), **({"gran": unit[5]} if len(unit) > 5 else {})}


def run_unit(unit: tuple, acc: Any) -> None:
    for case in acc.watch(cases(unit)):
        check_case(case, acc)


# ------------------------------------------------------------------ histories
def run_history(hist: list[int], acc: Any, case: dict) -> bool:
    exp = expected()
    held: list[tuple[int, Any, str]] = []
    for step, i in enumerate(hist):
        o = outcome_in_thread(i)
        acc.ran()
        got = o[:2] if o[0] == "tree" else o
        if got != exp[i]:
            if "chain" in case:
                case = {"hist": hist[: step + 1]}  # the prefix is the replayable history
            acc.violation(f"HISTORY outcome differs from a fresh interpreter ({exp[i][0]}->{got[0]}) call={_name(i)}", case,
                          {"step": step, "fresh": _short(exp[i]), "got": _short(got)})
            return False
        if o[0] == "tree":
            held.append((i, o[2], o[1]))
        # trees returned earlier must not have been altered by this call (all of them at the end of a long history,
        # the latest 32 at every step)
        for j, tree, dumped in (held if len(held) <= 32 or step == len(hist) - 1 else held[-32:]):
            if ast.dump(tree, include_attributes=True) != dumped:
                if "chain" in case:
                    case = {"hist": hist[: step + 1]}
                acc.violation(f"HISTORY a tree returned earlier was altered by a later call (earlier={_name(j)} later={_name(i)})", case, {"step": step})
                return False
    return True


def _short(o: list) -> list:
    return [str(x)[:160] for x in o[:4]]


def _name(i: int) -> str:
    src = POOL[i][0]
    if i >= N_STATIC:
        return f"'(' * {src.count('(')} + '1' + ')' * {src.count('(')}"
    return repr(src[:24]) + (f" [{POOL[i][1]}]" if POOL[i][1].startswith("file:") else "")


def chain() -> list[int]:
    """One long history in a single process: every ordered pair of pool calls occurs consecutively in it."""
    n = len(POOL)
    out: list[int] = []
    for a in range(n):
        for b in range(n):
            out += [a, b]
    return out


def bfs(depth: int, acc: Any, case: dict) -> None:
    """Breadth-first search rooted at one first call (the roots are explored side by side by the pool's workers)."""
    from ..oracle import heapfp

    root = case["root"]
    start = heapfp.fingerprint()[0]
    seen = {start}
    frontier: list[list[int]] = []
    transitions = 0
    capped = False
    t0 = time.time()
    for d in range(depth):
        nxt: list[list[int]] = []
        for h in ([[root]] if d == 0 else [hist + [i] for hist in frontier for i in range(len(POOL))]):
            if transitions >= BFS_CAP or time.time() - t0 > BFS_SECONDS:
                capped = True  # reported in the evidence: the search below this root is not complete
                break
            # the state after `h` is reached by replaying h in a forked copy of this (start-state) process
            fp, good = _replay_in_child(h, case)
            transitions += 1
            acc.ran(len(h))
            if not good:
                acc.violation(*_BFS_FAIL[0])
                _BFS_FAIL.clear()
                return
            if fp not in seen:
                seen.add(fp)
                nxt.append(h)
        frontier = nxt
        if not frontier or capped:
            break
    acc.notes["bfs_roots_capped"] = acc.notes.get("bfs_roots_capped", 0) + (1 if capped else 0)
    acc.notes["bfs_states"] = acc.notes.get("bfs_states", 0) + len(seen) - 1
    acc.notes["bfs_transitions"] = acc.notes.get("bfs_transitions", 0) + transitions
    acc.notes["bfs_roots_emptied"] = acc.notes.get("bfs_roots_emptied", 0) + (0 if frontier or capped else 1)


SCHED_CAP = 2500  # schedules per pair of threads (thorough tier)
SCHED_CAP_QUICK = 250
SCHED_SECONDS = 600.0  # and wall time per pair
BFS_CAP = 4000  # transitions per root
BFS_SECONDS = 600.0  # and wall time per root (the case deadline is 900 s)
_BFS_FAIL: list[tuple] = []


def _replay_in_child(hist: list[int], case: dict) -> tuple[str, bool]:
    """Run the history in a forked copy of this (start-state) process; return (fingerprint after it, invariant held)."""
    from ..core.acc import Acc
    from ..core.pool import fork_run
    from ..oracle import heapfp

    def child() -> tuple[str, list]:
        a = Acc(ID, 0)
        good = run_history(hist, a, {"hist": hist})
        fails = [(sig, {"hist": hist}, ent["examples"][0]["detail"]) for sig, ent in a.violations.items()]
        return heapfp.fingerprint()[0], fails if not good else []

    st, val = fork_run(child, 60.0)
    if st != "ok":
        _BFS_FAIL.append((f"HISTORY replay {st}", {"hist": hist}, None))
        return "", False
    fp, fails = val
    if fails:
        _BFS_FAIL.append(fails[0])
        return fp, False
    return fp, True


# ------------------------------------------------------------------ schedules
class _Sched:
    """Two threads A and B; A runs first; at A's k-th scheduling point B is started and runs to its m-th point (or to
    completion), then A continues, then B finishes.  One thread runs at a time (events hand the baton over)."""

    def __init__(self, k: int, m: int | None):
        self.k, self.m = k, m
        self.count = {"A": 0, "B": 0}
        self.a_go = threading.Event()
        self.b_go = threading.Event()
        self.b_parked = False
        self.b_done = threading.Event()
        self.a_done = threading.Event()
        self.preempted = False

    def point(self, who: str) -> None:
        self.count[who] += 1
        if who == "A" and self.count["A"] == self.k and not self.preempted:
            self.preempted = True
            self.a_go.clear()
            self.b_go.set()  # hand the baton to B
            self.a_go.wait(60)
        elif who == "B" and self.m is not None and self.count["B"] == self.m and not self.a_done.is_set():
            self.b_parked = True
            self.b_go.clear()
            self.a_go.set()  # back to A
            self.b_go.wait(60)


def run_schedule(a: int, b: int, k: int, m: int | None, gran: str = "call") -> tuple[list, list, dict]:
    sched = _Sched(k, m)
    res: dict[str, Any] = {}
    root = os.path.join(env.REPO, "peg_parser")
    lines = gran == "line"

    def tracer(who: str):
        def trace(frame, event, arg):  # noqa: ANN001
            if frame.f_code.co_filename.startswith(root):
                if event == "call" or (lines and event == "line"):
                    sched.point(who)
                return trace if lines else None  # line granularity: every line of the library's code is a scheduling point
            return None

        return trace

    def body(who: str, idx: int) -> None:
        if who == "B":
            sched.b_go.wait(60)
        sys.settrace(tracer(who))
        try:
            o = outcome_of(idx)
        finally:
            sys.settrace(None)
        res[who] = o[:2] if o[0] == "tree" else o
        if who == "A":
            sched.a_done.set()
            sched.b_go.set()  # B may run (or finish) now
        else:
            sched.b_done.set()
            sched.a_go.set()

    ta = threading.Thread(target=body, args=("A", a), daemon=True)
    tb = threading.Thread(target=body, args=("B", b), daemon=True)
    ta.start()
    tb.start()
    ta.join(120)
    tb.join(120)
    return res.get("A", ["hung"]), res.get("B", ["hung"]), {"pointsA": sched.count["A"], "pointsB": sched.count["B"], "preempted": sched.preempted}


def explore_schedules(a: int, b: int, preemptions: int, acc: Any, case: dict) -> None:
    exp = expected()
    gran = case.get("gran", "call")
    # points of A alone
    ra, rb, info = run_schedule(a, b, 10**9, None, gran)
    acc.ran(2)
    na, nb = info["pointsA"], info["pointsB"]
    if [ra, rb] != [exp[a], exp[b]]:
        acc.violation(f"SCHEDULE serial order differs from fresh interpreter A={_name(a)} B={_name(b)}", dict(case, k=None), {"A": _short(ra), "B": _short(rb)})
        return
    outcomes = set()
    ms: list[int | None] = [None]
    if preemptions >= 2:
        ms = [None] + list(range(1, nb + 1, max(1, nb // 40)))
    ks = range(1, na + 1)
    if case.get("sampled"):  # a grid instead of every point: the deep input has tens of thousands of scheduling points
        ks = sorted(set(range(1, na + 1, max(1, na // 8))) | set(range(1, min(na, 4) + 1)))
        ms = [None] + list(range(1, nb + 1, max(1, nb // 10)))
    t0 = time.time()
    cap = SCHED_CAP_QUICK if case.get("gran") == "line" and TIER == "quick" else SCHED_CAP
    if case.get("capped") and na * len(ms) > cap:
        # a pair with more schedules than the cap is explored on an even grid of A's points (and reported as capped)
        ks = range(1, na + 1, -(-na * len(ms) // cap))
        acc.notes["sched_pairs_capped"] = acc.notes.get("sched_pairs_capped", 0) + 1
    for k in ks:
        if case.get("capped") and time.time() - t0 > SCHED_SECONDS:
            acc.notes["sched_pairs_cut_short"] = acc.notes.get("sched_pairs_cut_short", 0) + 1
            break
        for m in ms:
            ra, rb, info = run_schedule(a, b, k, m, gran)
            acc.ran(2)
            acc.edge()
            if info["preempted"]:
                acc.nontrivial((a, b, k, m))
            outcomes.add((json.dumps(ra)[:200], json.dumps(rb)[:200]))
            if ra != exp[a] or rb != exp[b]:
                c = dict(case, k=k, m=m)
                # replay the failing schedule once more: it must fail identically before it is reported
                ra2, rb2, _ = run_schedule(a, b, k, m, gran)
                if (ra2, rb2) != (ra, rb):
                    acc.violation("SCHEDULE not reproducible under the controlled scheduler", c, {"first": [_short(ra), _short(rb)], "second": [_short(ra2), _short(rb2)]})
                    return
                which = "A" if ra != exp[a] else "B"
                got = ra if which == "A" else rb
                acc.violation(f"SCHEDULE thread {which} outcome differs from a fresh interpreter ({got[0]}) A={_name(a)} B={_name(b)}", c,
                              {"A": _short(ra), "B": _short(rb), "points": [na, nb]})
                return
    acc.notes.setdefault("schedule_outcomes", []).append(len(outcomes))
    acc.state(na * len(ms))


_PINNED = False
LIMIT = 3000  # the recursion limit every process of this check starts from (the pool's workers use the same)


def pin_limit() -> None:
    """Once per process, never again: a later call would undo (and hide) a change made by the library."""
    global _PINNED
    if not _PINNED:
        _PINNED = True
        sys.setrecursionlimit(LIMIT)


def check_case(case: dict, acc: Any) -> None:
    """Every history and every pair of threads starts from the state of a process that has imported the library and
    parsed nothing: the case runs in a forked copy of this process, which itself never parses.  (So a replay file
    reproduces exactly what was explored; the 'chain' case is the one long history in a single process.)"""
    pin_limit()
    expected()
    if "fresh" in case:
        check_fresh(case["fresh"], acc)
        return
    if "bfs" in case:
        bfs(case["bfs"], acc, case)  # forks one child per history itself
        return
    from ..core.acc import Acc
    from ..core.pool import fork_run

    def child() -> Any:
        a = Acc(ID, acc.seed)
        _check_in_child(case, a)
        return a

    st, sub = fork_run(child, CASE_DEADLINE - 10)
    if st != "ok":
        acc.violation(f"CHILD {st} ({'history' if 'hist' in case or 'chain' in case else 'schedule'})", case, None)
        return
    nt = sub.nt
    sub.nt = type(nt)("q")
    acc.merge(sub)
    acc.nt.extend(nt)


def _check_in_child(case: dict, acc: Any) -> None:
    if "hist" in case:
        if len(case["hist"]) >= 2:
            acc.nontrivial(tuple(case["hist"]))
        if run_history(case["hist"], acc, case):
            acc.count("history-ok")
    elif "chain" in case:
        hist = chain()
        acc.nontrivial(("chain", len(hist)))
        if run_history(hist, acc, case):
            acc.count("chain-ok")
    else:
        a, b = case["sched"]
        if "k" in case and case["k"] is not None:
            exp = expected()
            ra, rb, _ = run_schedule(a, b, case["k"], case.get("m"), case.get("gran", "call"))
            if ra != exp[a] or rb != exp[b]:
                which = "A" if ra != exp[a] else "B"
                got = ra if which == "A" else rb
                acc.violation(f"SCHEDULE thread {which} outcome differs from a fresh interpreter ({got[0]}) A={_name(a)} B={_name(b)}", case, {"A": _short(ra), "B": _short(rb)})
            return
        explore_schedules(a, b, case.get("preemptions", 1), acc, case)
        acc.count("pair-explored")


def finalize(acc: Any, tier: str) -> dict:
    b = {"states": 1 + acc.notes.get("bfs_states", 0), "transitions": acc.notes.get("bfs_transitions", 0), "roots": len(POOL),
         "roots_whose_frontier_emptied": acc.notes.get("bfs_roots_emptied", 0), "roots_capped": acc.notes.get("bfs_roots_capped", 0),
         "cap_per_root": {"transitions": BFS_CAP, "seconds": BFS_SECONDS}, "deep_inputs": DEEP_INFO}
    so = acc.notes.get("schedule_outcomes") or []
    capped = acc.notes.get("sched_pairs_capped", 0) + acc.notes.get("sched_pairs_cut_short", 0)
    return {"bfs": b, "exhaustive": b["roots_capped"] == 0 and capped == 0, "schedules": acc.transitions,
            "pairs_explored_on_a_grid": acc.notes.get("sched_pairs_capped", 0), "pairs_cut_short_by_time": acc.notes.get("sched_pairs_cut_short", 0), "distinct_outcomes_per_pair_max": max(so) if so else 0,
            "states": acc.cases + b["states"] + acc.states, "transitions": acc.cases + b["transitions"] + acc.transitions}
