"""C15 — options only do what they say: verbose is inert, py_version gating is monotone."""
from __future__ import annotations

import ast
import re
import sys
from typing import Any, Iterator

from ..explore import corpus, tokspace
from ..oracle import flat

ID = "C15"
ENGINE = "option grid verbose x py_version x mode over statement pool, corpus, version-gated constructs and E-TOK trees; outcome-invariance / monotonicity oracle"
RULE = (
    "every input of the statement pool (python + xonsh), the shortest corpus statements, a list of version-gated "
    "constructs (valid and broken variants), the E-TOK trees (expr, stmt, xsh, match) and the 'wrapped' family (every one-line "
    "erroneous snippet of the repository's error tests and every one-line pool statement, bare and inside 9 bracket / "
    "condition / subprocess wrappers) x verbose in {False, True} x "
    "py_version in {None, (3,8)..(3,13)} x mode in {exec, eval} (full grid for pool/corpus/gated inputs; for the E-TOK "
    "trees verbose x mode at the default version and three lowered versions). Oracle: the outcome (tree dump with "
    "positions, or exception class + message + location) is identical with verbose on and off; for each version it "
    "equals the default outcome or is a SyntaxError naming a required version above it; below the version that CPython's "
    "own tree says the program needs (except*: 3.11; type statements and type-parameter lists: 3.12) it must be that error; and from the first version "
    "that gives the default outcome on, all higher ones do; a rejection may only name 3.11 or 3.12, and for a program CPython parses only a version one of its own gated constructs needs. Long chains (10 shapes x 5 sizes up to 4500 operands) with verbose on and off. Non-trivial = inputs x configurations evaluated (distinct)."
)
BOUND = {"quick": "pool + 150 corpus statements + gated list: full 28-point grid; E-TOK n<=3 (expr, stmt, xsh, match) and the wrapped family: 7 points; long chains x verbose",
         "thorough": "pool + all corpus statements + gated list: full grid; E-TOK n<=4 (stmt n<=3) and the wrapped family: 7 points; long chains x verbose"}
ASSUMPTIONS = ["stdout is discarded while verbose tracing is on; tracing cost bounds the input sizes used"]
CASE_DEADLINE = 150.0  # the long chains under verbose tracing take seconds; a tracing change that is quadratic takes minutes

VERSIONS = [None, (3, 8), (3, 9), (3, 10), (3, 11), (3, 12), (3, 13)]
GATED = [
    "try:\n    pass\nexcept* E:\n    pass\n", "try:\n    pass\nexcept* (A, B) as e:\n    raise\nelse:\n    pass\n", "type X = int\n",
    "type X[T] = list[T]\n", "def f[T](a): pass\n", "def f[T: int, *Ts, **P](a): pass\n", "class A[T]: pass\n", "class A[T](B): x: T\n",
    "async def f[T](): pass\n", "type = 1\n", "type X = \n", "def f[T(a): pass\n", "class A[]: pass\n", "try:\n    pass\nexcept* E\n    pass\n",
    "x = 1\ntype Y = int\nz = (\n", "def f[T](a):\n    type Q = T\n    return $(ls)\n", "type x[a]\n", "def f[T]\n",
    "with (a as b, c as d): pass\n", "match a:\n    case 1: pass\n", "x = (y := 1)\n", "def f(a, /): pass\n", "print(f'{a=}')\n", "x[*a]\n",
    "lambda: (yield)\n", "@a[0]\ndef f(): pass\n",
]


class _Null:
    def write(self, s: str) -> int:
        return len(s)

    def flush(self) -> None:
        pass


_NULL = _Null()


def outcome(src: str, mode: str, py_version: Any, verbose: bool) -> tuple:
    from peg_parser.parser import XonshParser
    from peg_parser.tokenize import TokenError

    old = sys.stdout
    if verbose:
        sys.stdout = _NULL  # type: ignore[assignment]
    try:
        try:
            tree = XonshParser.parse_string(src, mode=mode, py_version=py_version, verbose=verbose)
        finally:
            sys.stdout = old
    except SyntaxError as e:
        return ("SyntaxError", type(e).__name__, e.msg, e.lineno, e.offset, e.end_lineno, e.end_offset, e.text)
    except TokenError as e:
        return ("TokenError", repr(e.args))
    except Exception as e:  # noqa: BLE001
        return ("other", type(e).__name__, str(e)[:120])
    return ("tree", flat.dump(tree) if isinstance(tree, ast.AST) else repr(tree))


# every type-parameter list of one or two parameters over the five parameter forms, on every carrier that takes one
_TP = ["T", "T: int", "T: (int, str)", "*Ts", "**P"]
GATED += [c.format(p) for p in _TP + [a + ", " + b for a in _TP for b in _TP if a.split(":")[0] != b.split(":")[0]]
          for c in ("class A[{}]: pass\n", "def f[{}](): pass\n", "async def f[{}](): pass\n", "type X[{}] = int\n")]


def units(tier: str) -> list[tuple]:
    q = tier == "quick"
    full = list(corpus.POOL) + GATED + corpus.python_stmts()[: 150 if q else 10**6]
    us: list[tuple] = [("full", i, min(len(full), i + 6), tier) for i in range(0, len(full), 6)]
    for v in ("expr", "stmt", "xsh", "match"):
        n = 3 if q or v == "stmt" else 4
        us += [("light",) + u for u in tokspace.units(v, n)]
    ne = len(_wrap_sources())
    us += [("wrap", i, min(ne, i + 10)) for i in range(0, ne, 10)]
    us += [("long", i) for i in range(len(LONG))]
    return us


# long chains: the trees of left-recursive rules are far deeper than the parser's own stack; whatever tracing does with a
# result (format it, measure it) must not depend on the depth.  Sizes straddle the depth at which a tree walk that
# recurses per level runs out of stack under the recursion limit the library itself sets.
LONG_SIZES = (300, 1000, 2000, 3000, 4500)
LONG = [
    lambda n: "x = " + " + ".join(["a"] * n) + "\n",
    lambda n: "x" + ".a" * n + "\n",
    lambda n: "x" + "()" * n + "\n",
    lambda n: "x" + "[0]" * n + "\n",
    lambda n: "x = " + "(" * 10 + " + ".join(["a"] * n) + ")" * 10 + "\n",
    lambda n: "def f():\n    if a:\n        for i in j:\n            x = [" + " * ".join(["a"] * n) + "]\n",
    lambda n: "x = " + " and ".join(["a"] * n) + "\n",
    lambda n: "x = " + " if b else ".join(["a"] * (n // 3)) + "\n",
    lambda n: "f(" + " | ".join(["$A"] * n) + ")\n",
    lambda n: "x = " + " + ".join(["a"] * n) + " +\n",  # the same chain, failing at its end
]


WRAPPERS = ["{S}", "[{S}]", "({S})", "f({S})", "if ({S}):\n    pass\n", "x[{S}]", "{{{S}}}", "while [{S}]:\n    pass\n", "$({S})", "@({S})"]


def _wrap_sources() -> list[str]:
    """One-line texts - erroneous snippets of the repository's error tests and the statement pool - to be put inside
    brackets: the diagnostics of the second pass are reached through memoised rules there."""
    out = [s.rstrip("\n") for s in corpus.error_snippets()] + [s.rstrip("\n") for s in corpus.POOL]
    return [s for s in dict.fromkeys(out) if s and "\n" not in s]


def cases(unit: tuple) -> Iterator[dict]:
    if unit[0] == "full":
        tier = unit[3]
        full = list(corpus.POOL) + GATED + corpus.python_stmts()[: 150 if tier == "quick" else 10**6]
        for s in full[unit[1] : unit[2]]:
            yield {"src": s, "grid": "full"}
    elif unit[0] == "wrap":
        for s in _wrap_sources()[unit[1] : unit[2]]:
            for w in WRAPPERS:
                t = w.replace("{{", "\0").replace("}}", "\1").replace("{S}", s).replace("\0", "{").replace("\1", "}")
                yield {"src": t if t.endswith("\n") else t + "\n", "grid": "light"}
    elif unit[0] == "long":
        for n in LONG_SIZES:
            yield {"src": LONG[unit[1]](n), "grid": "verbose-only"}
    else:
        for s, _ in tokspace.expand(unit[1:]):
            yield {"src": s, "grid": "light"}


def run_unit(unit: tuple, acc: Any) -> None:
    for case in acc.watch(cases(unit)):
        check_case(case, acc)


def _needed_version(src: str, mode: str) -> tuple[int, int] | None:
    """The version the gated syntax of a (plain Python) program needs, read off CPython's own tree: except* -> 3.11,
    type statements and type-parameter lists -> 3.12.  None for programs CPython does not parse (xonsh constructs)."""
    import warnings

    try:
        with warnings.catch_warnings():
            warnings.simplefilter("ignore")
            tree = ast.parse(src, mode=mode)
    except (SyntaxError, ValueError, RecursionError, MemoryError):
        return None
    need = None
    for n in ast.walk(tree):
        if isinstance(n, ast.TypeAlias) or getattr(n, "type_params", None):
            need = max(need or (0, 0), (3, 12))
        elif isinstance(n, ast.TryStar):
            need = max(need or (0, 0), (3, 11))
    return need


def _gated_versions(src: str, mode: str) -> set[tuple[int, int]] | None:
    """The versions that the gated constructs of a plain-Python program need, each on its own (a rejection may name any
    of them); None for programs CPython does not parse."""
    import warnings

    try:
        with warnings.catch_warnings():
            warnings.simplefilter("ignore")
            tree = ast.parse(src, mode=mode)
    except (SyntaxError, ValueError, RecursionError, MemoryError):
        return None
    out = set()
    for n in ast.walk(tree):
        if isinstance(n, ast.TypeAlias) or getattr(n, "type_params", None):
            out.add((3, 12))
        elif isinstance(n, ast.TryStar):
            out.add((3, 11))
    return out


GATES = {(3, 11), (3, 12)}  # the property's closed list: except* (3.11), type-parameter lists and type statements (3.12)


_NEEDS = re.compile(r"only supported in Python \((\d+), (\d+)\) and above")


def check_case(case: dict, acc: Any) -> None:
    src = case["src"]
    if case["grid"] == "full":
        modes, versions, verb_versions = ("exec", "eval"), VERSIONS, VERSIONS
    elif case["grid"] == "verbose-only":
        modes, versions, verb_versions = ("exec",), [None], [None]
    else:
        modes, versions, verb_versions = ("exec", "eval"), [None, (3, 8), (3, 10), (3, 12)], [None]
    for mode in modes:
        base = outcome(src, mode, None, False)
        acc.ran()
        # ---- verbose is inert
        for v in verb_versions:
            plain = base if v is None else outcome(src, mode, v, False)
            loud = outcome(src, mode, v, True)
            acc.ran(1 if v is None else 2)
            acc.nontrivial((src, mode, v, "verbose"))
            if loud != plain:
                acc.violation(f"VERBOSE changes outcome {plain[0]}->{loud[0]} mode={mode}", {"src": src, "mode": mode, "py_version": v, "grid": case["grid"]},
                              {"quiet": plain[:4], "verbose": loud[:4]})
                return
        # ---- py_version gating is monotone
        if mode == "eval" and case["grid"] == "light":
            continue
        reached = False
        needs = _needed_version(src, mode) if base[0] == "tree" else None
        for v in versions[1:]:
            o = outcome(src, mode, v, False)
            acc.ran()
            acc.nontrivial((src, mode, v))
            if o == base:
                if needs and v < needs:
                    acc.violation(f"VERSION accepted below the version its syntax needs mode={mode}",
                                  {"src": src, "mode": mode, "py_version": v, "grid": case["grid"]}, {"needs": needs})
                    return
                reached = True
                continue
            m = _NEEDS.search(o[2]) if o[0] == "SyntaxError" and isinstance(o[2], str) else None
            c = {"src": src, "mode": mode, "py_version": v, "grid": case["grid"]}
            if m is None:
                acc.violation(f"VERSION outcome differs without naming a version ({base[0]}->{o[0]}) mode={mode}", c, {"default": base[:4], "got": o[:4]})
                return
            need = (int(m.group(1)), int(m.group(2)))
            gated = _gated_versions(src, mode) if base[0] == "tree" else None
            if need not in GATES or (gated is not None and need not in gated):
                acc.violation(f"VERSION rejects syntax that is not version-gated (names {need}) mode={mode}", c, {"gated_constructs_need": sorted(gated or []), "got": o[:4]})
                return
            if v >= need:
                acc.violation(f"VERSION rejected at or above the version it names mode={mode}", c, {"need": need, "got": o[:4]})
                return
            if reached:
                acc.violation(f"VERSION not monotone: accepted below, rejected at a higher version mode={mode}", c, {"need": need, "got": o[:4]})
                return
    acc.count("ok")
