"""C12 — file and string entry points agree, in every process environment."""
from __future__ import annotations

import json
import os
import subprocess
from typing import Any, Iterator

from ..core import env
from ..explore import corpus, tokspace

ID = "C12"
ENGINE = "contents grid x environment grid; each environment is a child interpreter started with its own LC_ALL / -X utf8 / PYTHONUTF8 settings"
RULE = (
    "contents = valid and invalid programs (corpus statements and files, statement pool, E-TOK trees, hand-built error "
    "layouts: error on first / last line, span across blank lines, inside a multi-line string, after a with-macro) x "
    "newline convention {LF, CRLF, CR} x final newline {yes, no} x {ASCII, non-ASCII identifier, non-ASCII string and "
    "comment, error on a non-ASCII line}; plus 8 characters that str.splitlines() takes for line ends (FF, VT, FS, GS, RS, "
    "NEL, LS, PS) in 7 legal places before 10 tails (non-ASCII text, errors), and f-string debug fields before the same "
    "tails; x every process environment reachable in this image (C.UTF-8; C with default "
    "coercion; C with coercion and UTF-8 mode off = ASCII; POSIX -X utf8; PYTHONUTF8=1). Oracle: parse_file(tmp) and "
    "parse_string(text, 'exec') give the same tree dump with positions or the same (class, message, line, column, end, "
    "text); only the file name may differ. Non-trivial = (content, environment) pairs evaluated (distinct)."
)
BOUND = {"quick": "about 3.7k contents x 5 environments", "thorough": "about 40k contents x 5 environments"}
ASSUMPTIONS = [
    "locale -a offers only C, C.utf8 and POSIX in this image: a Latin-1 locale cannot be started; the ASCII configuration "
    "exercises the same code path (open() without an explicit encoding would use the locale's)",
]
CASE_DEADLINE = 120.0

ENVS = {
    "C.UTF-8": ({"LC_ALL": "C.UTF-8"}, []),
    "C-default": ({"LC_ALL": "C"}, []),
    "C-ascii": ({"LC_ALL": "C", "PYTHONCOERCECLOCALE": "0", "PYTHONUTF8": "0"}, []),
    "POSIX-Xutf8": ({"LC_ALL": "POSIX"}, ["-X", "utf8"]),
    "PYTHONUTF8": ({"LANG": "C", "PYTHONUTF8": "1"}, []),
}

ERROR_LAYOUTS = [
    "x = (1,\n\n     2 3)\n", "f(a\n\n for a in b, c)\n", "del f(\n\n)\n", "x = '''a\nb''' 1\n", "(a, b\n# note\n) += 1\n", "if a:\nb\n",
    "a b\n", "x = 1\ny = 2\nz z\n", "z z\nx = 1\n", "with! c:\n    raw $ text\n    more\na b\n", "x = [\n", "def f(:\n", "x = 'abc\n",
    "class A:\n    def f(self):\n        return (1 +\n\n", "f!(a]\n", "if a:\n    b\n  c\n", "\n\n\na b\n", "x = $(ls\n", "a = 1 +\n", "print(f'{a\n", "1 = x\n",
    "def f():\n    '''doc\n    string'''\n    return 1 +\n", "x = (a\n  b\n  c)\n",
    "x = (1, \\\n\\\n 2 3)\n", "(a,\n\\\n) += 1\n", "f(a\n  # c\n\n  \\\n for a in b, c)\n", "with! c:\n    raw\n(a,\n\n) += 1\n",
]
NONASCII = [
    ("id", lambda s: s.replace("x", "\u00e9t\u00e9").replace("a", "\u03b1")),
    ("strcomment", lambda s: "# \u00fcber \u4e2d\ns = '\u00e4\U0001f600'\n" + s),
    ("trailing", lambda s: s.rstrip("\n") + "  # \u00e9\n" if "\n" in s else s),
]


def contents(tier: str) -> list[str]:
    base: list[str] = list(corpus.POOL) + ERROR_LAYOUTS
    st = corpus.python_stmts()
    base += st[:120] if tier == "quick" else st
    if tier == "thorough":
        base += list(corpus.python_files().values())
    else:
        base += sorted(corpus.python_files().values(), key=len)[:6]
    out: dict[str, None] = {}
    for s in base:
        variants = [s]
        for _, f in NONASCII:
            variants.append(f(s))
        for v in variants:
            for nl in ("\n", "\r\n", "\r"):
                t = v.replace("\n", nl)
                out.setdefault(t, None)
                if t.endswith(nl):
                    out.setdefault(t[: -len(nl)], None)
    # characters that str.splitlines() takes for line ends, in legal places, before non-ASCII text or an error; f-string
    # debug fields (the parser asks the line table for their text) before text on other lines
    from ..explore import layout

    for _, t in layout.separators():
        out.setdefault(t, None)
    for pre in ("f'{a=}'\n", "print(f'''{a =\n}''', f'{b=!r:>{w}}')\n"):
        for tail in layout.SEP_TAILS:
            out.setdefault(pre + tail, None)
            out.setdefault(pre + "\n# c\n" + tail + "z = 1\n", None)
    return list(out)


def units(tier: str) -> list[tuple]:
    n = len(contents(tier))
    us: list[tuple] = []
    for e in ENVS:
        for lo in range(0, n, 150):
            us.append(("grid", e, lo, min(n, lo + 150), tier))
        vocs = (("expr", 3), ("xsh", 3)) if tier == "quick" else (("expr", 3), ("xsh", 3), ("stmt", 3), ("lit", 3))
        if tier == "quick" and e not in ("C-ascii", "C.UTF-8"):
            continue
        for v, k in vocs:
            for u in tokspace.units(v, k):
                us.append(("tokgrid", e) + u)
    return us


def cases(unit: tuple) -> Iterator[dict]:
    if unit[0] == "grid":
        _, e, lo, hi, tier = unit
        yield {"env": e, "texts": contents(tier)[lo:hi]}
    else:
        e = unit[1]
        texts = [s for s, _ in tokspace.expand(unit[2:])]
        for i in range(0, len(texts), 400):
            yield {"env": e, "texts": texts[i : i + 400]}


def run_unit(unit: tuple, acc: Any) -> None:
    for case in acc.watch(cases(unit)):
        check_case(case, acc)


def run_child(envname: str, texts: list[str]) -> tuple[dict, list[dict]]:
    vars_, flags = ENVS[envname]
    e = {k: v for k, v in os.environ.items() if not k.startswith("LC_") and k not in ("LANG", "PYTHONUTF8", "PYTHONCOERCECLOCALE", "PYTHONIOENCODING")}
    e.update(vars_)
    e["PYTHONIOENCODING"] = "utf-8"
    e["PYTHONDONTWRITEBYTECODE"] = "1"
    child = os.path.join(env.VERIF, "xpmc", "children", "c12_child.py")
    payload = "".join(json.dumps({"id": i, "text": t}, ensure_ascii=True) + "\n" for i, t in enumerate(texts))
    p = subprocess.run([env.PY, *flags, child, env.REPO], input=payload.encode("ascii"), capture_output=True, env=e, timeout=110)
    lines = p.stdout.decode("ascii", "replace").splitlines()
    if p.returncode != 0 or len(lines) != len(texts) + 1:
        raise RuntimeError(f"C12 child failed in {envname}: rc={p.returncode} lines={len(lines)}/{len(texts) + 1}\n{p.stderr.decode('utf-8', 'replace')[-600:]}")
    return json.loads(lines[0])["env"], [json.loads(ln) for ln in lines[1:]]


def check_case(case: dict, acc: Any) -> None:
    envname, texts = case["env"], case["texts"]
    info, results = run_child(envname, texts)
    acc.notes.setdefault("environments", {})[envname] = info
    for t, r in zip(texts, results):
        acc.ran(2)
        acc.nontrivial((envname, t))
        f, s = r["file"], r["string"]
        if f == s:
            acc.count(f"agree:{f[0]}")
            continue
        if f[0] != s[0]:
            sig = f"ENTRYPOINTS outcome file={f[0]}:{f[1] if f[0] != 'tree' else ''} string={s[0]}:{s[1] if s[0] != 'tree' else ''}"
        elif f[0] == "SyntaxError":
            names = ["kind", "class", "msg", "lineno", "offset", "end_lineno", "end_offset", "text"]
            k = next(i for i in range(len(f)) if f[i] != s[i])
            sig = f"ENTRYPOINTS SyntaxError.{names[k]} differs"
        else:
            sig = f"ENTRYPOINTS {f[0]} differs"
        acc.violation(sig + f" [{_envclass(envname)}]", {"env": envname, "texts": [t]}, {"file": f[:8], "string": s[:8]}, text=t)


def _envclass(e: str) -> str:
    return "ascii-locale" if e == "C-ascii" else "utf8"


def finalize(acc: Any, tier: str) -> dict:
    return {"environments": acc.notes.get("environments", {})}
