"""C07 — macros receive the verbatim source text of their arguments / body."""
from __future__ import annotations

import ast
import itertools
import textwrap
from typing import Any, Iterator

from ..oracle import macrosplit, run

ID = "C07"
ENGINE = "atom sequences x macro positions (call, subprocess, with macros); oracle = slices of the source text cut by an independent bracket/string-aware scanner"
RULE = (
    "call macros: every sequence of atoms (names, numbers, keywords, operators, the three bracket kinds, commas, strings "
    "containing , ) ], xonsh constructs, a comment and a newline inside brackets, blanks) up to the length bound as the "
    "argument text of f!(...), alone, nested in a call, as attribute base, as operand, and followed by a statement on the "
    "same / next line; subprocess macros: the same texts after 'cmd!' in the four bracket forms; with-macros: every "
    "block of lines up to the bound from a line alphabet (nested indentation, blank lines, comments, non-Python text, "
    "multi-line strings), block and one-line form, at top level and inside a def, followed by nothing / a statement / a "
    "compound statement. Oracle: string constants of call_macro / subproc_* / enter_macro == slices of the source; the "
    "statement after the macro == its stand-alone parse. Non-trivial = input inside the scanner's domain (balanced, "
    "complete strings) (distinct texts)."
)
BOUND = {
    "quick": "call-macro atom sequences <=3 (x 6 placements for <=2); subprocess-macro sequences <=3; with-macro bodies <=3 lines",
    "thorough": "call-macro atom sequences <=4; subprocess-macro sequences <=4; with-macro bodies <=4 lines",
}
ASSUMPTIONS = [
    "domain rules of DESIGN.md C07: only brackets and string literals protect commas; a '#' runs to the end of the line; "
    "subprocess-macro text does not begin with ( [ = ; with-macro bodies have a non-comment line, balanced brackets, complete strings",
]

ATOMS = [
    "a", "bc", "1", "if", "lambda", "+", "==", "*", "(", ")", "[", "]", "{", "}", ",", " ", "'s'", '"x,y"', "'a)b'", '"]"', "$X", "$(ls)", "@(e)",
    "!", "?", "#c\n", "\n", ":", ".", "f'{a},{b}'", "=", "`g*`", "\n      ", "f'({a})'", "\\\n", " \\\n   ",
]
PLACEMENTS = [
    ("{}\n", None),
    ("x = g({}, 1)\n", None),
    ("{}.attr\n", None),
    ("y = {} + 1\n", None),
    ("{}; y = 2\n", "y = 2\n"),
    ("{}\ny = [2,\n 3]\n", "y = [2,\n 3]\n"),
]
LINES = ["x = 1", "    y", "", "# c", "ls -l | grep $X", "if a:", "        z", "s = '''t", "u'''", "(", ")", "  w  ", "a, b", "\tq", "f = f'''t {a}",
         "mid {b} x",
         # a physical line that holds only a backslash (joined with the next one); a statement continued by one
         "\\", "v = 1 + \\",
         # a leading '<' / '<<' puts the line two / four columns left of the block's indentation (dedented comments)
         "<# d", "<<# e",
         # characters str.splitlines() takes for line ends, inside a multi-line string of the block
         "r = '''a\x0cb", "c\u2028d'''",
         # one statement over several physical lines, with an empty and a repeated line inside the string
         "d = '''first\n\n    same\n    same\n'''"]
AFTER = ["", "y = 2\n", "if z:\n    pass\n"]


def units(tier: str) -> list[tuple]:
    n = 3 if tier == "quick" else 4
    us: list[tuple] = []
    for i in range(len(ATOMS)):
        us.append(("call", i, n))
        us.append(("proc", i, n))
    nl = 3 if tier == "quick" else 4
    for i in range(len(LINES)):
        us.append(("with", i, nl))
    us.append(("with1", 0, n))
    return us


def _seqs(first: int, n: int) -> Iterator[str]:
    yield ATOMS[first]
    for m in range(1, n):
        for rest in itertools.product(ATOMS, repeat=m):
            yield ATOMS[first] + "".join(rest)


def cases(unit: tuple) -> Iterator[dict]:
    k = unit[0]
    if k == "call":
        if unit[1] == 0:
            yield {"kind": "call", "src": "f!()\n", "macro": "f!()", "after": None}
        for text in _seqs(unit[1], unit[2]):
            m = f"f!({text})"
            short = len(text) <= 8
            for tmpl, after in (PLACEMENTS if short else PLACEMENTS[:1] + PLACEMENTS[4:5]):
                yield {"kind": "call", "src": tmpl.format(m), "macro": m, "after": after}
    elif k == "proc":
        if unit[1] == 0:  # the empty macro (nothing / blanks after the bang), alone and followed by code
            for op, cl in (("$(", ")"), ("$[", "]"), ("!(", ")"), ("![", "]")):
                for raw in ("", " ", "  "):
                    yield {"kind": "proc", "src": f"{op}cmd!{raw}{cl}\n", "op": op, "raw": raw, "empty": True}
                    yield {"kind": "proc", "src": f"r = {op}cmd!{raw}{cl}; y = [1, 2]\n", "op": op, "raw": raw, "empty": True, "after": "y = [1, 2]\n"}
                    yield {"kind": "proc", "src": f"{op}cmd!{raw}{cl}\ny = [1, 2]\n", "op": op, "raw": raw, "empty": True, "after": "y = [1, 2]\n"}
        for text in _seqs(unit[1], unit[2]):
            for op, cl in (("$(", ")"), ("![", "]")) if len(text) > 6 else (("$(", ")"), ("$[", "]"), ("!(", ")"), ("![", "]")):
                yield {"kind": "proc", "src": f"{op}cmd! {text}{cl}\n", "op": op, "raw": " " + text}
                yield {"kind": "proc", "src": f"r = {op}cmd!{text}{cl}; y = 2\n", "op": op, "raw": text, "after": "y = 2\n"}
    elif k == "with":
        first, n = LINES[unit[1]], unit[2]
        for m in range(0, n):
            for rest in itertools.product(LINES, repeat=m):
                body = [first, *rest]
                for after in AFTER:
                    yield {"kind": "with", "body": body, "after": after, "indent": 0}
                if m <= 2:  # the same block in a CRLF source
                    yield {"kind": "with", "body": body, "after": "y = 2\n", "indent": 0, "crlf": True}
                if m <= 1:  # blanks / a comment between the colon of the header and the end of its line
                    for tail in (" ", "\t ", "  # note", "# n", " #"):
                        yield {"kind": "with", "body": body, "after": "y = 2\n", "indent": 0, "tail": tail}
                        yield {"kind": "with", "body": body, "after": "return 1\n", "indent": 4, "tail": tail, "tab": True}
                yield {"kind": "with", "body": body, "after": "return 1\n", "indent": 4}
                # the same block indented by a tab (eight columns, one character)
                yield {"kind": "with", "body": body, "after": "y = 2\n", "indent": 0, "tab": True}
                yield {"kind": "with", "body": body, "after": "return 1\n", "indent": 4, "tab": True}
    elif k == "with1":
        for i in range(len(ATOMS)):
            for text in _seqs(i, min(unit[2], 3)):
                if "\n" in text:
                    continue
                yield {"kind": "with1", "src": f"with! ctx: {text}\ny = 2\n", "rest": " " + text, "after": "y = 2\n"}


def run_unit(unit: tuple, acc: Any) -> None:
    for case in acc.watch(cases(unit)):
        check_case(case, acc)


def _xcall(node: Any, name: str) -> bool:
    return (
        isinstance(node, ast.Call) and isinstance(node.func, ast.Attribute) and node.func.attr == name
        and isinstance(node.func.value, ast.Name) and node.func.value.id == "__xonsh__"
    )


def _after_ok(tree: Any, after: str | None, acc: Any, case: dict, src: str) -> bool:
    """The statement following the macro equals its stand-alone parse (line-shifted)."""
    if not after:
        return True
    st, ref = run.ours(after, "exec")
    if st != run.TREE:
        return True
    k = len(ref.body)
    got = tree.body[-k:]
    off = src.count("\n") - after.count("\n")
    # same-line continuation (';'): compare without positions
    same_line = not src.endswith("\n" + after) and not src[: len(src) - len(after)].endswith("\n")
    ref2 = ast.parse("pass")  # placeholder to keep types simple
    import copy

    ref2 = copy.deepcopy(ref)
    if not same_line:
        ast.increment_lineno(ref2, off)
    a = [ast.dump(s, include_attributes=not same_line) for s in got]
    b = [ast.dump(s, include_attributes=not same_line) for s in ref2.body]
    if a != b:
        acc.violation(f"AFTER-MACRO {case['kind']} following statement differs", case, {"got": a[:2], "want": b[:2]}, text=src)
        return False
    return True


def check_case(case: dict, acc: Any) -> None:
    kind = case["kind"]
    if kind == "call":
        return _check_call(case, acc)
    if kind == "proc":
        return _check_proc(case, acc)
    return _check_with(case, acc)


def _check_call(case: dict, acc: Any) -> None:
    src, macro = case["src"], case["macro"]
    at = src.index(macro)
    try:
        slices, close = macrosplit.split_call_macro(src, at + 3)
    except macrosplit.Unsupported as e:
        acc.count("outside:" + str(e).split(" ")[0])
        return
    if close != at + len(macro) - 1:
        acc.count("outside:closes-early")  # e.g. an unbalanced ')' inside the text: a different program
        return
    if any(not s.strip() for s in slices[:-1]) and len(slices) > 1:
        acc.count("outside:empty-argument")
        return
    want = macrosplit.arguments(slices)
    acc.nontrivial(src)
    st, tree = run.ours(src, "exec")
    acc.ran()
    if st != run.TREE:
        acc.count("REJECTED")
        acc.violation(f"REJECTED call-macro {type(tree).__name__}", case, run.exc_brief(tree), text=src)
        return
    calls = [n for n in ast.walk(tree) if _xcall(n, "call_macro")]
    if len(calls) != 1:
        acc.violation(f"SHAPE call-macro count={len(calls)}", case, ast.dump(tree)[:300], text=src)
        return
    c = calls[0]
    ok = len(c.args) == 4 and isinstance(c.args[0], ast.Name) and c.args[0].id == "f" and isinstance(c.args[1], ast.Tuple)
    if not ok:
        acc.violation("SHAPE call-macro arguments", case, ast.dump(c)[:300], text=src)
        return
    got = [e.value if isinstance(e, ast.Constant) else ast.dump(e) for e in c.args[1].elts]
    if got != want:
        sig = "ARGS call-macro " + ("count" if len(got) != len(want) else "text")
        acc.count("ARGS-DIFF")
        acc.violation(sig, case, {"got": got, "want": want}, text=src)
        return
    if _after_ok(tree, case.get("after"), acc, case, src):
        acc.count("equal")


def _check_proc(case: dict, acc: Any) -> None:
    src, raw = case["src"], case["raw"]
    body = raw.strip()
    if case.get("empty"):
        body = ""
    elif not body or body[0] in "([=":
        acc.count("outside:digraph-or-empty")
        return
    if not macrosplit.balanced(raw) or "#" in raw or "\n" in raw.replace("\\\n", ""):
        acc.count("outside:unbalanced")
        return
    acc.nontrivial(src)
    st, tree = run.ours(src, "exec")
    acc.ran()
    if st != run.TREE:
        acc.count("REJECTED")
        acc.violation(f"REJECTED subprocess-macro {type(tree).__name__} {_procfam(raw)}", case, run.exc_brief(tree), text=src)
        return
    from ..oracle.wordsplit import METHOD

    calls = [n for n in ast.walk(tree) if _xcall(n, METHOD[case["op"]])]
    if len(calls) != 1:
        acc.violation(f"SHAPE subprocess-macro count={len(calls)}", case, ast.dump(tree)[:300], text=src)
        return
    args = calls[0].args
    got = [a.value if isinstance(a, ast.Constant) else ast.dump(a) for a in args]
    if got != ["cmd", body]:
        acc.count("ARGS-DIFF")
        acc.violation(f"ARGS subprocess-macro {_procfam(raw)}", case, {"got": got, "want": ["cmd", body]}, text=src)
        return
    if _after_ok(tree, case.get("after"), acc, case, src):
        acc.count("equal")


def _procfam(raw: str) -> str:
    for t in ("{", "}", "@(", "@$(", "${"):
        if t in raw:
            return "curly-or-at-paren"
    return "plain"


def _with_src(case: dict) -> tuple[str, str]:
    ind = " " * case["indent"]
    head = ("def f():\n" if case["indent"] else "") + f"{ind}with! ctx as c:{case.get('tail', '')}\n"
    unit = "\t" if case.get("tab") else "    "
    lines = [_place(ind, ln, unit) for ln in case["body"]]
    block = "".join(lines)
    after = "".join(ind + ln + "\n" for ln in case["after"].splitlines()) if case["after"] else ""
    # the block's own text: everything up to the next statement, minus the comment lines after its last code line
    # that are indented less than the block (they belong to no block), and whatever follows those
    last = max((i for i, ln in enumerate(case["body"]) if _is_code(ln)), default=len(lines) - 1)
    keep = len(lines)
    for i in range(last + 1, len(lines)):
        blanks = lines[i][: len(lines[i]) - len(lines[i].lstrip())]
        if lines[i].lstrip().startswith("#") and len(blanks.expandtabs(8)) < len((ind + unit).expandtabs(8)):
            keep = i
            break
    return head + block + after, "".join(lines[:keep])


def _place(ind: str, ln: str, unit: str = "    ") -> str:
    if ln.startswith("<<"):
        return ind + ln[2:] + "\n"
    if ln.startswith("<"):
        return ind + "  " + ln[1:] + "\n"
    return ind + unit + ln + "\n"


def _is_code(ln: str) -> bool:
    # (a line that holds only a backslash is joined with the next one: no code of its own)
    return bool(ln.strip()) and not ln.lstrip("<").strip().startswith("#") and ln.strip() != "\\"


def _consistent_indent(body: list[str]) -> bool:
    """Every dedent inside the block returns to an enclosing indentation level (lines inside a multi-line string aside)."""
    stack = [0]
    in_str = False
    joined = False  # the line before ended in a backslash: this one starts no logical line, its indentation does not count
    for ln in body:
        if joined:
            joined = ln.endswith("\\")
            continue
        joined = ln.endswith("\\")
        if in_str:
            if "'''" in ln:
                in_str = False
            continue
        if ln.count("'''") % 2:
            in_str = True
        if not _is_code(ln):
            continue
        col = len(ln) - len(ln.lstrip(" "))
        if col > stack[-1]:
            stack.append(col)
        else:
            while stack[-1] > col:
                stack.pop()
            if stack[-1] != col:
                return False
    return True


def _check_with(case: dict, acc: Any) -> None:
    if case["kind"] == "with1":
        src = case["src"]
        rest = case["rest"]
        if not rest.strip() or not macrosplit.balanced(rest) or "#" in rest:
            acc.count("outside:one-line-body")
            return
        want = rest.strip()
        after = case["after"]
    else:
        body = case["body"]
        if not any(_is_code(ln) for ln in body):
            acc.count("outside:no-code-line")
            return
        # the first code line fixes the block's indentation; deeper / blank / comment lines stay inside, nothing may dedent out
        first = next(ln for ln in body if _is_code(ln))
        if first[0] in " \t" or any(ln[:1] == "\t" for ln in body):
            acc.count("outside:first-line-not-at-block-indent")
            return
        if any("\n" in ln for ln in body) and sum(ln.count("'''") for ln in body if "\n" not in ln):
            acc.count("outside:multi-line-entry-inside-another-string")  # the entry's own lines would become code
            return
        if any(ln.endswith("\\") and (i + 1 == len(body) or not _is_code(body[i + 1]) or body[i + 1].startswith("<")) for i, ln in enumerate(body)):
            acc.count("outside:continuation-without-a-line-to-continue")  # it would reach out of the block
            return
        if not _consistent_indent(body):
            acc.count("outside:inconsistent-dedent")  # the block does not tokenize (IndentationError): outside the domain
            return
        src, block = _with_src(case)
        if not macrosplit.balanced(block):
            acc.count("outside:unbalanced")
            return
        want = textwrap.dedent(block)
        after = "".join(" " * case["indent"] + ln + "\n" for ln in case["after"].splitlines()) if case["after"] else ""
        after = textwrap.dedent(after) if case["indent"] == 0 else None
        if case.get("crlf"):
            if "\r" in src or "\\\n" in block and False:
                acc.count("outside:already-has-cr")
                return
            src, want = src.replace("\n", "\r\n"), want.replace("\n", "\r\n")
            after = after.replace("\n", "\r\n") if after else after
    acc.nontrivial(src)
    st, tree = run.ours(src, "exec")
    acc.ran()
    if st != run.TREE:
        acc.count("REJECTED")
        acc.violation(f"REJECTED with-macro {type(tree).__name__}", case, run.exc_brief(tree), text=src)
        return
    calls = [n for n in ast.walk(tree) if _xcall(n, "enter_macro")]
    if len(calls) != 1 or len(calls[0].args) != 4 or not isinstance(calls[0].args[1], ast.Constant):
        acc.violation("SHAPE with-macro", case, ast.dump(tree)[:300], text=src)
        return
    got = calls[0].args[1].value
    if case["kind"] == "with1":
        okay = isinstance(got, str) and got.strip() == want and got in src
    else:
        okay = got == want
    if not okay:
        acc.count("BODY-DIFF")
        acc.violation(f"BODY with-macro {'one-line' if case['kind'] == 'with1' else 'block'}", case, {"got": got, "want": want}, text=src)
        return
    if case["kind"] == "with" and case["indent"]:
        # inside a def: the statement after the block must still be in the function body
        fn = tree.body[0]
        if not (isinstance(fn, ast.FunctionDef) and len(fn.body) == 2 and isinstance(fn.body[1], ast.Return)):
            acc.violation("AFTER-MACRO with following statement differs", case, ast.dump(tree)[:300], text=src)
            return
        acc.count("equal")
        return
    if _after_ok(tree, after, acc, case, src):
        acc.count("equal")
