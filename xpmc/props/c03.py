"""C03 — totality: every input terminates with a tree or SyntaxError/TokenError."""
from __future__ import annotations

import os
import tempfile
from pathlib import Path
from typing import Any

from ..explore import charspace, tokspace
from ..oracle import run, totality

ID = "C03"
ENGINE = "E-CHR + E-TOK(xsh) + char-E-EDIT + E-LINE, outcome-class monitor with parent-side watchdog"
RULE = (
    "every string over the 20-character 'nasty' alphabet (incl. NBSP and VT: whitespace to str.isspace() but not to the tokenizer) up to the length bound (bare and inside f-string, "
    "subprocess, call-macro and with-macro carriers), every xonsh/python lexeme sequence of the E-TOK trees, every filling of nine xonsh carriers (help chains, env targets, subprocess words, macro arguments, with-macro headers), every "
    "character-level prefix/deletion/insertion of the corpus, the E-LINE breadth-first search over tokenizer line states, and size families (a run of 30 / 60 / 200 copies of each of 24 fillers inside each of 22 lexical contexts); each is tokenized to exhaustion and parsed in exec "
    "and eval mode (short ones also through parse_file); C10's f-string family (every field form x quote style x {f, rf} x literal parts) with every "
    "proper prefix of each text; the indentation-unit blocks and the line-separator family of E-LAY. Non-trivial = the text is non-empty and reached the parser "
    "(distinct texts, hashed)."
)
BOUND = {
    "quick": "nasty^<=4 bare, ^<=3 in 12 carriers (closed and left open); E-TOK xsh, lit, expr n<=3; corpus char edits; parse_file for nasty^<=2; E-LINE depth 3",
    "thorough": "nasty^<=5 bare, ^<=4 in 12 carriers (closed and left open); E-TOK xsh, lit n<=4, all python vocabularies n<=4; corpus char edits; E-LINE depth 5",
}
ASSUMPTIONS = [
    "per-case deadline 6 s enforced by the parent process, re-run alone with 30 s before a hang is reported",
    "RecursionError is counted as 'other exception' (a violation) only if raised by inputs inside the bounds",
]
CARR = ["f2", "f1", "f3", "sub", "subsq", "macro", "withm", "call", "macro_open", "sub_open", "f2_open", "fb_open"]


def units(tier: str) -> list[tuple]:
    from ..explore import edits

    n = 4 if tier == "quick" else 5
    us: list[tuple] = []
    us += charspace.units("nasty", "bare", n)
    for c in CARR:
        us += charspace.units("nasty", c, n - 1)
    us += tokspace.units("xsh", 3 if tier == "quick" else 4)
    us += tokspace.units("lit", 3 if tier == "quick" else 4)
    if tier == "quick":
        us += tokspace.units("expr", 3)
    else:
        for v in ("expr", "stmt", "defs", "match"):
            us += tokspace.units(v, 4 if v != "stmt" else 3)
    from ..explore import subspace

    us += subspace.xunits(tier)
    us += edits.char_units(tier)
    us += [("file", "nasty", 2 if tier == "quick" else 3)]
    us += [("eline", 3 if tier == "quick" else 5)]
    us += [("long", i) for i in range(len(LONG_CONTEXTS))]
    us += [("huge", i) for i in range(len(HUGE_CONTEXTS))]
    from . import c10

    us += [("fstr", i) for i in range(len(c10.FIELDS))]
    from ..explore import layout

    us += [u for u in layout.units(tier) if u[4] in ("indent", "sep")]
    us += [("exotic",)]
    return us


# characters that are legal in a str but not in a program, or legal only in some places
EXOTIC = ["\udc80", "\ud800", "\x00", "\ufeff", "\U0001f600", "\u0301", "\x7f", "\x1b", "\u200b", "\xad"]
EXOTIC_CARRIERS = ["x = {C}\n", "x = 'a{C}b'\n", "# {C}\nx = 1\n", "a{C} = 1\n", "f'{C}{{x}} {{y!r:{C}>3}}'\n", "$(echo {C})\n", "é{C} = 'ü{C}'\n",
                   "x = '''a\n{C}'''\n", "{C}", "b'{C}'\n", "f!({C})\n", "with! a:\n    {C}\n", "p'{C}'\n", "`{C}`\n", "x = 1 +{C}\n", "${{'{C}'}}\n"]


# size families for the tokenizer: a long homogeneous run inside every lexical context (catastrophic regex backtracking
# and quadratic loops need length, not variety)
LONG_CONTEXTS = ["{}", "'{}", '"{}', "'''{}", "f'{}", "f'{{{}", "f'{{a:{}", "#{}", "$({}", "`{}", "r'{}", "b\"{}", "({}", "f!({}", "with! a:\n {}",
                 "'{}'", "f'{}'", "x = {}\n", "'{}\n", "\"{}\\\n", "p'{}", "$[{}]",
                 # inside a replacement field and inside a format spec, open and closed, in every quote style
                 "f'{" + "{}", "f'{a:" + "{}", "f'{a:" + "{}" + "}'\n", "f\"{a!r:" + "{}" + "}\"\n", "f\'\'\'{a:" + "{}" + "}\'\'\'\n", "f'{a:{b:" + "{}" + "}}'\n",
                 "f'{a:" + "{}" + "{b}}'\n", "rf'{a:" + "{}", "f'{a=:" + "{}" + "}'\n", "print(f\"{now:" + "{}" + "}\")\n", "f!(f'{a:" + "{}" + "}')\n"]
LONG_FILLERS = ["a", "ab ", "1", "1.", "\\", "'", '"', " ", "\t", "é", "{", "}", "{{", "(", ")", "a.", "\\n", "\n", "$", "!", "?", "-x ", "0_", "\\N{", "%A, ", ">", "\\'"]
LONG_SIZES = [30, 60, 200]


# numeric literals around the interpreter's limit for int <-> str conversion (4300 digits): whatever evaluates a literal
# meets a ValueError there
HUGE_CONTEXTS = ["x = {}\n", "x = {}j\n", "x = 0x{}\n", "x = {}.5\n", "x = 1e{}\n", "x = -{}\n", "[1, 2.5, {}, 3j]", "match v:\n    case {}:\n        pass\n",
                 "match v:\n    case -{}:\n        pass\n", "$(echo {})\n", "ls -l | head -n {}\n", "f'{{a:{}}}'\n", "f'{{{}}}'\n", "f!({})\n", "x = {}_{}\n",
                 "a[{}:{}]\n", "def f(a={}): pass\n", "x = 0b{}\n", "x = 0o{}\n"]
HUGE_DIGITS = ["9", "1", "0", "7"]
HUGE_SIZES = [4299, 4300, 4301, 5000, 9000]


def cases(unit: tuple):
    kind = unit[0]
    if kind == "huge":
        for d in HUGE_DIGITS:
            for n in HUGE_SIZES:
                yield HUGE_CONTEXTS[unit[1]].replace("{{", "\0").replace("}}", "\1").replace("{}", ("1" if d == "0" else "") + d * n).replace("\0", "{").replace("\1", "}")
        return
    if kind == "chr":
        for s in charspace.expand(unit):
            yield s
    elif kind == "tok":
        for s, _ in tokspace.expand(unit):
            yield s
    elif kind == "xsub":
        from ..explore import subspace

        yield from subspace.expand(unit)
    elif kind == "cedit":
        from ..explore import edits

        yield from edits.char_expand(unit)
    elif kind == "file":
        u = ("chr", unit[1], "bare", "", unit[2])
        for s in charspace.expand(u):
            yield {"file": s}
    elif kind == "fstr":
        # C10's f-string family (field form x quote style x prefix x literal parts) and every proper prefix of each text
        from . import c10

        f0 = c10.FIELDS[unit[1]]
        seen: set[str] = set()
        for pre in ("f", "rf"):
            for q in c10.QUOTES:
                for l1 in c10.LITERALS[:4]:
                    for l2 in c10.LITERALS[:4]:
                        t = f"{pre}{q}{c10._lit(l1, q)}{f0}{c10._lit(l2, q)}{q}\n"
                        for k in range(len(pre) + len(q), len(t) + 1):
                            if t[:k] not in seen:
                                seen.add(t[:k])
                                yield t[:k]
    elif kind == "exotic":
        for c in EXOTIC:
            for car in EXOTIC_CARRIERS:
                t = car.replace("{{", "\0").replace("}}", "\1").replace("{C}", c).replace("\0", "{").replace("\1", "}")
                yield t
                yield t.rstrip("\n")
                if not 0xD800 <= ord(c) <= 0xDFFF:  # a lone surrogate cannot be written to a UTF-8 file
                    yield {"file": t}
    elif kind == "lay":
        from ..explore import layout

        for _, t in layout.expand(unit):
            yield t
    elif kind == "long":
        ctx = LONG_CONTEXTS[unit[1]]
        for f in LONG_FILLERS:
            for n in LONG_SIZES:
                yield ctx.replace("{}", f * (n // len(f)), 1) if "{}" in ctx else ctx
    elif kind == "eline":
        from ..explore import linebfs

        info: dict = {}
        for h, _toks, _err in linebfs.iter_bfs(linebfs.ALPHABET_CORE, unit[1], info):
            yield {"lines": h}
        _ELINE_INFO.update(info)


def run_unit(unit: tuple, acc: Any) -> None:
    for case in acc.watch(cases(unit)):
        check_case(case, acc)


_TMP: str | None = None


def check_case(case: Any, acc: Any) -> None:
    if isinstance(case, dict) and "file" in case:
        return check_file(case, acc)
    if isinstance(case, dict) and "lines" in case:
        return check_eline(case, acc)
    src = case
    if src.strip():
        acc.nontrivial(src)
    totality.check_text(src, acc, case)


def check_file(case: dict, acc: Any) -> None:
    global _TMP
    from peg_parser.parser import XonshParser
    from peg_parser.tokenize import TokenError

    if _TMP is None:
        base = "/dev/shm" if os.path.isdir("/dev/shm") else None
        _TMP = tempfile.mkdtemp(prefix="xpmc-c03-", dir=base)
        import atexit
        import shutil

        atexit.register(shutil.rmtree, _TMP, True)
    p = Path(_TMP) / f"f{os.getpid()}.py"
    with open(p, "w", encoding="utf-8", newline="") as f:
        f.write(case["file"])
    acc.ran()
    try:
        tree = XonshParser.parse_file(p)
    except (SyntaxError, TokenError):
        acc.count("file:error")
        return
    except Exception as e:  # noqa: BLE001
        acc.count("file:other")
        acc.violation(f"PARSEFILE-EXC {type(e).__name__}@{totality.where(e)}", case, run.exc_brief(e), text=case["file"])
        return
    import ast

    acc.count("file:tree")
    if not isinstance(tree, ast.Module):
        acc.violation(f"PARSEFILE-RESULT {type(tree).__name__}", case, None, text=case["file"])


_ELINE_INFO: dict = {}


def check_eline(case: dict, acc: Any) -> None:
    """One transition of the E-LINE search (tokenizer line states): the line history must end in tokens or an allowed
    exception, and short histories are also parsed."""
    from peg_parser.tokenize import TokenError

    from ..explore import linebfs

    hist = case["lines"]
    src = "".join(hist)
    _s, _toks, err = linebfs.feed(hist)
    acc.ran()
    if err is not None and not isinstance(err, (TokenError, SyntaxError)):
        acc.violation(f"TOKENIZE-EXC {type(err).__name__}@{totality.where(err)} [E-LINE]", {"src": src, "lines": hist}, run.exc_brief(err), text=src)
    if len(hist) <= 3:
        totality.check_text(src, acc, {"src": src, "lines": hist}, tokens=False)
    if _ELINE_INFO:
        acc.notes["eline"] = dict(_ELINE_INFO)


def finalize(acc: Any, tier: str) -> dict:
    e = acc.notes.get("eline") or {}
    return {"eline": e, "exhaustive": not e.get("capped", False), "states": acc.cases + e.get("states", 0),
            "transitions": acc.cases + e.get("transitions", 0)}
