"""Whole-file leg shared by C01 (files without f-strings) and C10 (files with): tree equality with ast.parse on every
standard-library module; a failing file is reduced to the first top-level statement that fails on its own."""
from __future__ import annotations

import re
from typing import Any

from ..explore import pylib
from ..oracle import astcmp, run

_MSG = re.compile(r"'[^']*'|\"[^\"]*\"|\d+")


def _verdict(src: str, ref: Any = None) -> tuple[str, Any] | None:
    """None if the implementation's tree equals CPython's, else (signature, detail)."""
    if ref is None:
        st, ref = run.cpy(src, "exec")
        if st != run.TREE:
            return None
    st, tree = run.ours(src, "exec")
    if st != run.TREE:
        msg = _MSG.sub("#", str(tree.msg if isinstance(tree, SyntaxError) else tree))[:80]
        return f"REJECTED exec {type(tree).__name__}: {msg}", run.exc_brief(tree)
    try:
        d = astcmp.diff_src(tree, ref, src)
    except RecursionError:
        return None  # a tree deeper than the comparison can walk (the chain is compared by the other explorers)
    if d is None:
        return None
    return f"TREE-DIFF exec {astcmp.sig(d[0])}", {"path": d[0], "ours": d[1], "cpython": d[2]}


def check_file(case: dict, acc: Any, fstrings: bool) -> None:
    rel = case["pylib"]
    src = pylib.read(rel)
    if src is None:
        acc.count("lib:not-utf8")
        return
    if pylib.has_fstring_token(src) != fstrings:
        acc.count("lib:other-property's-file")
        return
    if "\x00" in src or "﻿" in src or pylib.code_has_at_paren(src):
        acc.count("lib:outside")
        return
    st, ref = run.cpy(src, "exec")
    if st != run.TREE:
        acc.count("lib:cpython:" + st)
        return
    acc.nontrivial(("lib", rel))
    acc.ran()
    if fstrings:
        # the tokens of the f-strings too (statement by statement, so that a known finding in one statement hides no other)
        from ..oracle import cpy_tok

        r = cpy_tok.compare(src, allow_fstrings=True)
        if r is not None and r[0] == "diff":
            for stmt in pylib.statements(src, ref):
                r2 = cpy_tok.compare(stmt, allow_fstrings=True) if stmt[:1] not in " \t\f" else None
                if r2 is not None and r2[0] == "diff":
                    acc.violation(r2[1], {"src": stmt, "mode": "exec", "from": rel}, r2[2], text=stmt)
    v = _verdict(src, ref)
    if v is None:
        acc.count("lib:equal")
        return
    acc.count("lib:" + v[0].split(" ")[0])
    small = pylib.reduce_to_stmt(src, ref, _verdict)
    if small is not None:
        s, (sig, detail) = small
        acc.violation(sig, {"src": s, "mode": "exec", "from": rel}, detail)
    else:
        acc.violation(v[0] + " [whole file only]", {"pylib": rel, "which": case.get("which")}, v[1], text="")
