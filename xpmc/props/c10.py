"""C10 — f-strings (tokens and trees) agree with CPython, incl. nested fields and specs."""
from __future__ import annotations

import itertools
import re
from typing import Any, Iterator

from ..explore import charspace, corpus, pylib
from . import _lib
from ..oracle import astcmp, cpy_tok, run

ID = "C10"
ENGINE = "E-CHR inside f-string carriers + structured product (prefix x quote x literal part x field) + adjacency + corpus; differential against CPython's tokenize and ast.parse"
RULE = (
    "every string over the 12-character f-string alphabet (a { } : ! = r blank 3 . backslash quote) up to the length "
    "bound as the body of f\"..\", f'..', f\"\"\"..\"\"\", rf\"..\"; the structured product of all 12 prefix spellings x 4 "
    "quote styles x literal parts {plain, escape, {{, }}, other quote, non-ASCII} x field forms {a, a!r, a!x, a!rr, a=, "
    "a = , a:>3, a:{w}, a:{w}.{p}, a!r:^{w}, nested f-string, multi-line field, lambda / dict in parentheses} up to the "
    "part bound; f-strings nested two and three deep in every combination of the four quote styles with 12 conversion / "
    "format-spec forms (specs holding the other styles' quote characters) at every level; adjacency with plain strings, other f-strings and a following '{'; every f-string statement of the "
    "corpus; every field form that holds a line end once more with CRLF line ends; every module of the interpreter's own standard library that holds an f-string, as a whole file (tree only). Domain: ast.parse accepts. Oracle: FSTRING_START/MIDDLE/END and expression tokens equal CPython's "
    "tokenize, and the JoinedStr / FormattedValue / Constant tree (values and spans) equals ast.parse. Non-trivial = "
    "accepted by CPython and containing at least one replacement field or escape (distinct texts)."
)
BOUND = {"quick": "bodies^<=5 in f\"..\", ^<=4 in the other three carriers; structured product up to 2 parts; nesting depth 2 (with literal parts) and 3; adjacency; corpus; CRLF forms; " + pylib.describe("quick"),
         "thorough": "bodies^<=6 in f\"..\", ^<=5 in the others; structured product up to 3 parts; nesting depth 2 (with literal parts) and 3; adjacency; corpus; CRLF forms; " + pylib.describe("thorough")}
ASSUMPTIONS = ["CPython 3.12.1 tokenize / ast.parse are the reference (incl. its habit of ending a format spec that holds a nested field with an empty Constant)"]

PREFIXES = ["f", "F", "rf", "fr", "Rf", "fR", "rF", "Fr", "RF", "FR", "fR", "Rf"]
QUOTES = ['"', "'", '"""', "'''"]
LITERALS = ["", "x", "x y", "\\n", "\\x41", "\\\\", "{{", "}}", "{{x}}", "OTHERQ", "\u00e9", "\\'", "%s", "#", "\\N{DIGIT ONE}",
            # a backslash in front of a character that is no escape: ASCII, Latin-1, astral; an escaped brace; text that reads like code
            "\\z", "\\\u00e9", "\\\U0001f600", "\\{{", "None", "if", ")", ","]
FIELDS = [
    "{a}", "{a!r}", "{a!x}", "{a!rr}", "{a=}", "{a = }", "{a:>3}", "{a:{w}}", "{a:{w}.{p}}", "{a!r:^{w}}", "{f'{b}'}", "{a\n}", "{(lambda: 1)()}",
    "{ {'k': 1}['k'] }", "{a:}", "{a!s:x}", "{a,}", "{*a,}", "{a if b else c}", "{a:{{}}}", "{a:=3}", "{(a:=3)}", "{a!r=}", "{a=!r}", "{a=:>3}", "{a.b[0]()}",
    "{a:%Y-%m}", "{'q'}", "{a:{w}{p}}", "{}", "{a:{w!r}}", "{ a }", "{a#}", "{yield}", "{a:\n}",
    # a line end inside a format spec: part of the spec in a triple-quoted f-string, its end in a single-quoted one
    "{a:>\n3}", "{a:x\ny}", "{a:{w}\n}", "{a:\n{w}}", "{a:>\\\n3}", "{a!r:>\n}",
    # a debug field that goes on over the end of the line
    "{a=\n}", "{a = \n!r}", "{a=\n:>3}", "{a\n=}", "{a=!r\n}", "{a # c\n=}", "{'#' + a=}",
    # comments after the '=' of a debug field, on several lines, before a conversion / format spec
    "{a= # c\n}", "{a = # c\n  !r}", "{a=#c\n:>3}", "{a # c\n = # d\n}", "{a = # c\n\n  # d\n\n}", "{a =\t# c\n\t}", "{a + # c\n b = }",
    # fields nested in format specs two, three and four levels deep (CPython: two are fine, then 'nested too deeply')
    # a debug field with a format spec that holds an escape, a nested field, a line continuation
    "{a=:\\t>4}", "{a=!r:\\x41^{w}}", "{a=:\\\n>3}", "{a = :{w}\\N{DIGIT ONE}}",
    "{a:{w:{p}}}", "{a:{w:{p:{q}}}}", "{a:x{w:y{p}z}}", "{a:{w!r:{p}}}", "{a! r}", "{a !r}", "{a!\nr}",
    # backslashes and quotes in a format spec: an escaped quote, an escaped backslash, a backslash before a brace, a bare quote
    "{a:\\'}", "{a:\\\"}", "{a:a\\'b}", "{a:\\}", "{a:\\\\}", "{a:\\{w}}", "{a:\\\u00e9>9}", "{a:x'\n}", "{a:x\"\n}", "{a:'}", "{a:\"}", "{a!r:\\'^{w}}",
    # spec and expression text that reads like a keyword, an operator or a bracket
    "{a:if}", "{a:None}", "{a:)}", "{a:,}", "{a:lambda}", "{lambda x:None}", "{lambda:True}", "{lambda x:...}", "{a if b else:c}", "{a:=}", "{a:not in}",
    # escapes inside the string literals of a debug field (CPython 3.12.1 decodes them in the debug text)
    "{'\\t'=}", "{\"\\x41\" + a = }", "{'\\\\'=}", "{'\\N{DIGIT ONE}'=!r}", "{'\\z'=}",
]
ADJ = ["'s' {F}", "{F} 's'", "{F} {F}", "{F} {G}", "f({F}, {{}})", "x = {F}; y = {{1: 2}}", "{F} if a else {{}}", "b'x' {F}", "{F}\n{G}\n", "({F}\n 's'\n 't')",
       "print({F}, {G}, sep='{{')", "[{F} for a in {{1}}]", "p{F}", "{F}.format(1)", "u's' {F}", "r's' {F}"]


def units(tier: str) -> list[tuple]:
    q = tier == "quick"
    us: list[tuple] = []
    us += charspace.units("fstr", "f2", 5 if q else 6)
    for c in ("f1", "f3", "rf2"):
        us += charspace.units("fstr", c, 4 if q else 5)
    us += charspace.units("fstr2", "f3", 4 if q else 5)
    for i in range(len(FIELDS)):
        us.append(("prod", i, 2 if q else 3))
    us.append(("adj",))
    us.append(("corpus",))
    us.append(("crlf",))
    us += pylib.units(tier, "fstr")
    for i in range(len(QUOTES)):
        us.append(("nest", i, 2))
        us.append(("nest", i, 3))
    return us


# nested f-strings (PEP 701): every quote style inside every other, with format specs that hold quote characters
NEST_LITS = ["", "x", "OTHERQ"]
NEST_SPECS = ["", "!r", ":>3", ":{w}", ':"^5', ":'^5", ":'", ':"', ":'\"^3", "!r:\">{w}", "=", ":=3"]
NEST_TAILS = ["", "y"]


def _nest(outer: int, depth: int) -> Iterator[str]:
    def level(d: int, first: int | None) -> Iterator[str]:
        qs = [QUOTES[first]] if first is not None else QUOTES
        if d == 0:
            yield "a"
            return
        full = depth == 2
        for q in qs:
            for inner in level(d - 1, None):
                for spec in NEST_SPECS:
                    for l1 in (NEST_LITS if full else [""]):
                        for l2 in (NEST_TAILS if full else [""]):
                            yield f"f{q}{_lit(l1, q)}{{{inner}{spec}}}{l2}{q}"
    for s in level(depth, outer):
        yield s + "\n"


def light_cases() -> Iterator[str]:
    """Every field form x 4 quote styles x {f, rf} x 4 x 4 literal parts: the f-string family other checks borrow."""
    for f0 in FIELDS:
        for pre in ("f", "rf"):
            for q in QUOTES:
                for l1 in LITERALS[:4]:
                    for l2 in LITERALS[:4]:
                        yield f"{pre}{q}{_lit(l1, q)}{f0}{_lit(l2, q)}{q}\n"



def blank_insertions() -> Iterator[str]:
    """Every field form in two quote styles with a blank, a tab or a line end inserted at every position of the f-string:
    where blanks are not allowed inside a replacement field (after '!', inside ':=' ...) CPython rejects the text."""
    seen: set[str] = set()
    for f0 in FIELDS:
        for q, t in [(q, t) for q in ("'", '"""') for t in (f"f{q}x{f0}y{q}\n", f"f{q}\\\\{f0}\\\\{q}\n")]:
            for k in range(1 + len(q), len(t) - len(q) - 1):
                for ins in (" ", "\n", "\t", "\\\n"):
                    u = t[:k] + ins + t[k:]
                    if u not in seen:
                        seen.add(u)
                        yield u


def _lit(l: str, quote: str) -> str:
    if l == "OTHERQ":
        return "'" if quote[0] == '"' else '"'
    return l


def cases(unit: tuple) -> Iterator[str]:
    k = unit[0]
    if k == "chr":
        yield from charspace.expand(unit)
    elif k == "prod":
        f0 = FIELDS[unit[1]]
        nparts = unit[2]
        for pre in sorted(set(PREFIXES)):
            for q in QUOTES:
                if "\n" in f0 and len(q) == 1:
                    pass  # CPython decides whether a newline inside the field of a single-quoted f-string is legal
                for l1 in LITERALS:
                    for l2 in (LITERALS if pre == "f" else LITERALS[:4]):
                        yield f"{pre}{q}{_lit(l1, q)}{f0}{_lit(l2, q)}{q}\n"
                if nparts >= 3 and pre in ("f", "rf") and q in ('"', "'''"):
                    for f1 in FIELDS:
                        for l in LITERALS[:8]:
                            yield f"{pre}{q}{f0}{_lit(l, q)}{f1}{q}\n"
        if nparts == 2:
            for f1 in FIELDS:
                for l in ("", "x", "{{", "\\n"):
                    yield f'f"{f0}{l}{f1}"\n'
    elif k == "adj":
        fs = ['f"a"', 'f"{a}"', "f'{a!r:>{w}}'", 'f"""m\n{b}"""', 'rf"\\d{a}"', 'f"{{"', 'f"x{a}y"', "f'{a}}}'", 'f"{a=}"']
        for t in ADJ:
            for F, G in itertools.product(fs, repeat=2):
                s = t.replace("{{", "\0").replace("}}", "\1").replace("{F}", F).replace("{G}", G).replace("\0", "{").replace("\1", "}")
                yield s if s.endswith("\n") else s + "\n"
    elif k == "nest":
        yield from _nest(unit[1], unit[2])
    elif k == "crlf":
        # every field form that holds a line end, written with CRLF line ends (the whole text, as in a CRLF file)
        # (trees only: CPython's tokenize module, unlike its compiler, does not translate line ends first and reports the
        # '\r' as text of a format spec; the tokens are compared on the LF forms)
        for t in light_cases():
            if "\n" in t[:-1]:
                yield {"src": t.replace("\n", "\r\n"), "tree_only": True}
    elif k == "pylib":
        yield from pylib.expand(unit)
    elif k == "corpus":
        for s in corpus.python_stmts():
            if run.has_fstring(s):
                yield s
                yield s.replace("\n", "\r\n")
        for s in corpus.POOL:
            if run.has_fstring(s) and run.python_lexicon(s):
                yield s


def run_unit(unit: tuple, acc: Any) -> None:
    for case in acc.watch(cases(unit)):
        check_case(case, acc)


_INTERESTING = re.compile(r"[{\\]")
_MSG = re.compile(r"'[^']*'|\"[^\"]*\"|\d+")


def check_case(case: Any, acc: Any) -> None:
    if isinstance(case, dict) and "pylib" in case:
        _lib.check_file(case, acc, fstrings=True)
        return
    src = case["src"] if isinstance(case, dict) else case
    if not run.python_lexicon(src.replace("!r", "").replace("!s", "").replace("!a", "").replace("!x", "").replace("!", "")) and "$" in src:
        acc.count("outside:xonsh-lexeme")
        return
    st, ref = run.cpy(src, "exec")
    if st != run.TREE:
        acc.count("cpython:" + st)
        return
    if _INTERESTING.search(src):
        acc.nontrivial(src)
    # ---- tokens
    r = None if isinstance(case, dict) and case.get("tree_only") else cpy_tok.compare(src, allow_fstrings=True)
    acc.ran()
    if r is not None and r[0] == "diff":
        acc.count("TOKENS-DIFF")
        acc.violation(r[1], src, r[2])  # the tree is compared all the same
    # ---- tree
    st, tree = run.ours(src, "exec")
    acc.ran()
    if st != run.TREE:
        msg = _MSG.sub("#", str(tree.msg if isinstance(tree, SyntaxError) else tree))[:80]
        acc.count("REJECTED")
        acc.violation(f"REJECTED {type(tree).__name__}: {msg}", src, run.exc_brief(tree))
        return
    d = astcmp.diff_src(tree, ref, src)
    if d is None:
        acc.count("equal")
        return
    acc.count("TREE-DIFF")
    acc.violation("TREE-DIFF " + astcmp.sig(d[0]), src, {"path": d[0], "ours": d[1], "cpython": d[2]})
