"""C09 — the tokenizer agrees with CPython's tokenizer on Python sources."""
from __future__ import annotations

import itertools
from typing import Any, Iterator

from ..explore import charspace, corpus, linebfs, pylib, spell, tokspace
from ..oracle import cpy_tok, run

ID = "C09"
ENGINE = "spelling products (numbers, string prefixes x quotes x bodies, operator runs, indentation patterns) + E-CHR + E-LINE BFS + corpus; differential against CPython's tokenize"
RULE = (
    "every numeric spelling over 0 1 9 _ . e E j x o b a f + - up to the length bound; every string prefix spelling x "
    "4 quote styles x bodies over a \\ ' \" newline { up to 3 characters; every ordered pair (and triple) of Python "
    "operators with and without separating blank; every indentation pattern of <=4 lines over {0,1,2,4,8 blanks, tab, "
    "tab+blank, blank+tab, form feed variants}; all pylay character strings; the E-LINE breadth-first search over "
    "tokenizer line states; every corpus file (LF and CRLF). Domain: CPython's tokenize accepts, no xonsh lexeme, no "
    "'@(' digraph, no f-string (C10), none of the tokenize-module leniencies (<>, 01-like numbers, stray closer, lone "
    "CR). Oracle: NAME/NUMBER/STRING/OP equal in (type, text, start, end); NEWLINE/INDENT/DEDENT/ENDMARKER at the same "
    "places in the sequence. Non-trivial = inside the domain with >= 3 significant tokens (distinct texts)."
)
BOUND = {
    "quick": "numbers^<=5; prefixes x quotes x bodies^<=3; operator pairs; indentation 11^<=4; pylay^<=5 (^<=4 in brackets); E-LINE depth 4; files; identifiers^<=3 over 17 character classes; " + pylib.describe("quick") + " (those without f-strings)",
    "thorough": "numbers^<=6; prefixes x quotes x bodies^<=3; operator triples; indentation 11^<=5; pylay^<=6 (^<=5 in brackets); E-LINE depth 6; files; identifiers^<=3 over 17 character classes; " + pylib.describe("thorough") + " (those without f-strings)",
}
ASSUMPTIONS = ["CPython 3.12.1's tokenize module is the reference; its documented leniencies are excluded by rule, not by instance"]

NUM = "019_.eEjxobaf+-"
PREFIXES = sorted({"".join(p) for base in ("", "r", "b", "u", "br", "rb") for p in itertools.product(*[(c, c.upper()) for c in base])} | {"ub", "bu", "rr", "bb", "ur", "a"})
QUOTES = ["'", '"', "'''", '"""']
BODY = "a\\'\"\n{"
OPS = [
    "+", "-", "*", "**", "/", "//", "%", "@", "<<", ">>", "&", "|", "^", "~", ":=", "<", ">", "<=", ">=", "==", "!=", "(", ")", "[", "]", "{",
    "}", ",", ":", ".", ";", "=", "->", "+=", "-=", "*=", "/=", "//=", "%=", "@=", "&=", "|=", "^=", ">>=", "<<=", "**=", "...",
]
INDENTS = ["", " ", "  ", "    ", "        ", "\t", "\t ", " \t", "\f", "\f ", " \f  "]


def units(tier: str) -> list[tuple]:
    q = tier == "quick"
    us: list[tuple] = []
    for c in NUM:
        us.append(("num", c, 5 if q else 6))
    for p in PREFIXES:
        us.append(("str", p))
    for i in range(len(OPS)):
        us.append(("ops", i, 2 if q else 3))
    for i in range(len(INDENTS)):
        us.append(("ind", i, 4 if q else 5))
    us += charspace.units("pylay", "bare", 5 if q else 6)
    us += charspace.units("pylay", "paren", 4 if q else 5)
    us.append(("eline", 4 if q else 6))
    us.append(("files",))
    us += pylib.units(tier, "tokens")
    us += spell.ident_units()
    for v in ("expr", "lit"):
        us += tokspace.units(v, 3)
    return us


def _strings(alpha: str, prefix: str, n: int) -> Iterator[str]:
    def rec(s: str) -> Iterator[str]:
        yield s
        if len(s) >= n:
            return
        for c in alpha:
            yield from rec(s + c)

    yield from rec(prefix)


def cases(unit: tuple) -> Iterator[Any]:
    k = unit[0]
    if k == "num":
        for s in _strings(NUM, unit[1], unit[2]):
            yield "x = " + s + "\n"
            if len(s) <= 4:
                yield s + "if 1 else 2\n"
                yield "f(" + s + ")[" + s + "]\n"
    elif k == "str":
        p = unit[1]
        for q in QUOTES:
            for body in _strings(BODY, "", 3):
                yield f"x = {p}{q}{body}{q}\n"
                yield f"{p}{q}{body}{q} y\n"
    elif k == "ops":
        a = OPS[unit[1]]
        for rest in itertools.product(OPS, repeat=unit[2] - 1):
            for sep in ("", " "):
                yield "a " + a + sep + sep.join(rest) + " b\n"
                yield "a" + a + sep + sep.join(rest) + "1\n"
    elif k == "ind":
        first = INDENTS[unit[1]]
        for m in range(0, unit[2]):
            for rest in itertools.product(INDENTS, repeat=m):
                lines = [first, *rest]
                yield "".join(ind + "a\n" for ind in lines)
                if m <= 2:
                    yield "".join(ind + ("if b:\n" if j % 2 == 0 else "#c\n") for j, ind in enumerate(lines)) + "    c\n"
    elif k == "chr":
        yield from charspace.expand(unit)
    elif k == "tok":
        for s, _ in tokspace.expand(unit):
            yield s
    elif k == "pylib":
        yield from pylib.expand(unit)
    elif k == "spell":
        yield from spell.expand(unit)
    elif k == "files":
        for _, src in sorted(corpus.python_files().items()):
            yield src
            yield src.replace("\n", "\r\n")
        for s in corpus.PY_POOL:
            yield s
            yield s.rstrip("\n")
    elif k == "eline":
        info: dict = {}
        for h, _toks, _err in linebfs.iter_bfs(linebfs.ALPHABET_CORE, unit[1], info):
            yield {"lines": h}
        _ELINE_INFO.update(info)


def run_unit(unit: tuple, acc: Any) -> None:
    for case in acc.watch(cases(unit)):
        check_case(case, acc)


def check_case(case: Any, acc: Any) -> None:
    if isinstance(case, dict) and "lines" in case:
        return _eline(case, acc)
    if isinstance(case, dict) and "pylib" in case:
        src = pylib.read(case["pylib"])
        if src is None or pylib.code_has_at_paren(src) or "\ufeff" in src:
            acc.count("lib:outside")
            return
    else:
        src = case["src"] if isinstance(case, dict) else case
    if isinstance(case, dict) and "pylib" in case:
        pass  # '$', '?', '!' ... inside the strings and comments of a program CPython accepts are no xonsh lexemes
    elif not run.python_lexicon(src) or ">&" in src or "@(" in src:
        acc.count("outside:xonsh-lexeme")
        return
    r = cpy_tok.compare(src)
    acc.ran()
    if r is None:
        acc.count("agree")
        if src.count(" ") + src.count("\n") >= 2:
            acc.nontrivial(src)
        return
    if r[0] == "outside":
        acc.count("outside:" + str(r[1]).split(":")[0])
        return
    acc.count("DIFF")
    if isinstance(case, dict) and "pylib" in case:
        acc.violation(r[1] + " [standard-library file]", {"pylib": case["pylib"]}, r[2], text="")
        return
    acc.violation(r[1], src, r[2])


_ELINE_INFO: dict = {}


def _eline(case: dict, acc: Any) -> None:
    """One transition of the E-LINE search: the line history is tokenized by both tokenizers."""
    hist = case["lines"]
    src = "".join(hist)
    if run.python_lexicon(src) and ">&" not in src and "@(" not in src:
        r = cpy_tok.compare(src)
        acc.ran()
        if r is not None and r[0] == "diff":
            acc.violation(r[1] + " [E-LINE]", {"src": src, "lines": hist}, r[2], text=src)
    if _ELINE_INFO:
        acc.notes["eline"] = dict(_ELINE_INFO)


def finalize(acc: Any, tier: str) -> dict:
    e = acc.notes.get("eline") or {}
    return {"eline": e, "exhaustive": not e.get("capped", False), "states": acc.cases + e.get("states", 0),
            "transitions": acc.cases + e.get("transitions", 0)}
