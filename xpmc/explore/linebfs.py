"""E-LINE: explicit-state breadth-first search of the tokenizer's line machine (DESIGN §2.3).

A state is the canonical form of peg_parser.tokenize.TokenizerState after a sequence of physical lines, read out
of the live generator frame (gen.gi_frame.f_locals['state']) at the moment the tokenizer asks for the next line.
A transition feeds one more line of the line alphabet to the REAL generator (rebuilt from the line history).
"""
from __future__ import annotations

from typing import Any, Callable

from peg_parser.tokenize import TokenError, generate_tokens


def canon(state: Any) -> tuple:
    progs = tuple(
        (type(p.mode).__name__, getattr(p.mode, "parenlevel", None), p.quote, str(getattr(p.pattern, "pattern", p.pattern)), bool(p.text))
        for p in state.end_progs
    )
    return (state.parenlev, bool(state.continued), tuple(state.indents), progs, bool(getattr(state, "blank_line", False)))


def feed(lines: list[str]) -> tuple[Any, list, Any]:
    """Tokenize exactly these physical lines; returns (canonical state when the next line is requested | None if
    the tokenizer stopped earlier, tokens emitted, exception | None)."""
    it = iter(lines)
    snap: list[Any] = []
    holder: list[Any] = []

    def readline() -> str:
        try:
            return next(it)
        except StopIteration:
            if not snap:
                fr = holder[0].gi_frame
                snap.append(canon(fr.f_locals["state"]) if fr is not None and "state" in fr.f_locals else None)
            return ""

    gen = generate_tokens(readline)
    holder.append(gen)
    toks = []
    err = None
    try:
        for t in gen:
            toks.append(t)
    except (TokenError, SyntaxError) as e:
        err = e
    except Exception as e:  # noqa: BLE001
        err = e
    return (snap[0] if snap else None), toks, err


def bfs(alphabet: list[str], depth: int, on_transition: Callable[[list[str], list, Any], None], max_states: int = 200_000) -> dict:
    """Expand every distinct state once with every line of the alphabet, up to `depth` lines."""
    info: dict = {}
    for h, toks, err in iter_bfs(alphabet, depth, info, max_states):
        on_transition(h, toks, err)
    return info


def iter_bfs(alphabet: list[str], depth: int, info: dict, max_states: int = 200_000):
    """The same search as a generator: yields (line history, tokens, exception) for every transition, so that the
    caller's watchdog sees each transition as one case; `info` is filled in when the search ends."""
    s0, _, _ = feed([])
    seen = {s0}
    frontier: list[list[str]] = [[]]
    transitions = 0
    maxdepth = 0
    capped = False
    for d in range(depth):
        nxt: list[list[str]] = []
        for hist in frontier:
            for line in alphabet:
                h = hist + [line]
                s, toks, err = feed(h)
                transitions += 1
                yield h, toks, err
                if not line.endswith("\n"):
                    continue  # an unterminated line can only be the last one readline returns
                if s is not None and s not in seen:
                    if len(seen) >= max_states:
                        capped = True
                        continue
                    seen.add(s)
                    nxt.append(h)
        if nxt:
            maxdepth = d + 1
        frontier = nxt
        if not frontier:
            break
    info.update({"states": len(seen), "transitions": transitions, "max_depth": maxdepth, "frontier_emptied": not frontier, "capped": capped})


ALPHABET_CORE = [
    "a\n", "a = 1\n", "\n", "   \n", "# c\n", "    b\n", "  c\n", "\tb\n", "        d\n", "\f\n", "a \\\n", "\\\n", "(\n", ")\n", "[a,\n", "]\n", "{\n",
    "}\n", "x = '''s\n", "t'''\n", "''' + 1\n", '"""\n', "'a\\\n", "b'\n", "x = 'a' \"b\"\n", "f'''a\n", "{b}\n", "{c\n", "!r}\n", ":>4}\n",
    "f'{a\n", "}'\n", "f'{a:\n", "f\"\"\"{\n", "a\r\n", "a \\\r\n", "if a:\n", "else:\n", "def f(a,\n", "b): pass\n", "1 + (2 #c\n", "a ; b\n",
    "$(ls\n", "-l)\n", "@(a\n", "![x\n", "f!(a,\n", "with! a:\n", "p'x'\n", "`g`\n", "r'''\\\n", "x = 1.5e3j + 0x1f\n", "a: int = b if c else d\n",
    "a'\n", "\"\n", "\\a\n", "é = 'ü'\n", ")", "a", "    ", "'''", "\\", "# c",
]
