"""E-TOK: the prefix tree of all lexeme sequences V^<=n (DESIGN §2.1).

A unit is (vocab name, prefix of lexeme indices, max total length); the worker enumerates every
extension of the prefix. Distinct sequences render to distinct texts (single-space joins, layout
pseudo-lexemes tracked with an indentation level; DEDENT at level 0 prunes the subtree).
"""
from __future__ import annotations

from typing import Iterator

NL, IND, DED = "NL", "INDENT+", "DEDENT"

VOCABS: dict[str, list[str]] = {
    "expr": [
        "a", "1", "'s'", "(", ")", "[", "]", "{", "}", ",", ":", "=", ":=", "+", "-", "*", "**", "not", "<",
        "and", "if", "else", "for", "in", "lambda", ".", "is", "~",
    ],
    "stmt": [
        "a", "1", "(", ")", ",", "=", "*", ":", NL, IND, DED, "def", "class", "return", "pass", "del", "import",
        "from", "as", "global", "assert", "raise", "yield", "await", "async", "with", "try", "except", "finally",
        "while", "break", "else", "if", ".", ";",
    ],
    "defs": ["def", "lambda", "(", ")", ",", ":", "=", "*", "**", "/", "->", "@", "a", "b", "1", "class", NL, IND, "pass", "[", "]"],
    "match": ["match", "case", "_", "|", "as", "(", ")", "[", "]", "{", "}", ":", ",", "*", "**", "a", "1", "'s'", ".", NL, IND, "-", "="],
    "lit": [
        "'s'", "b's'", "f's'", "f'{a}'", "rb's'", "u's'", "'''t'''", "'\\x'", "1", "1.5", "1j", "0x1", "a", "+", "(", ")", ",", "%", "-",
        "=", "p's'", "pf'{a}'",
    ],
    "xsh": [
        "$", "${", "$(", "$[", "!(", "![", "@(", "@$(", ")", "]", "}", "?", "??", "!", "&&", "||", "a", "1", "'s'",
        "-l", "|", "=", NL, "with", ":", IND, ",", ">", "`a`", "p'a'",
    ],
}


def render(seq: list[str] | tuple[str, ...]) -> str | None:
    """Text of a lexeme sequence; None if it dedents below level 0."""
    out: list[str] = []
    level = 0
    bol = True
    for lx in seq:
        if lx == NL:
            out.append("\n" + "    " * level)
            bol = True
        elif lx == IND:
            level += 1
            out.append("\n" + "    " * level)
            bol = True
        elif lx == DED:
            if level == 0:
                return None
            level -= 1
            out.append("\n" + "    " * level)
            bol = True
        else:
            if not bol:
                out.append(" ")
            out.append(lx)
            bol = False
    return "".join(out) + "\n"


def units(vocab: str, n: int, split: int = 2) -> list[tuple]:
    V = VOCABS[vocab]
    k = len(V)
    us: list[tuple] = [("tok", vocab, (), min(n, split - 1) if n >= split else n)]
    if n >= split:
        # all prefixes of length `split`
        def rec(p: tuple[int, ...]) -> Iterator[tuple[int, ...]]:
            if len(p) == split:
                yield p
                return
            for i in range(k):
                yield from rec(p + (i,))

        for p in rec(()):
            us.append(("tok", vocab, p, n))
    return us


def expand(unit: tuple) -> Iterator[tuple[str, tuple[str, ...]]]:
    """Yield (text, lexemes) for the unit's prefix itself (if it is a full prefix unit) and all extensions."""
    _, vocab, prefix, n = unit
    V = VOCABS[vocab]
    seq = [V[i] for i in prefix]

    def rec(seq: list[str]) -> Iterator[tuple[str, tuple[str, ...]]]:
        txt = render(seq)
        if txt is None:
            return
        yield txt, tuple(seq)
        if len(seq) >= n:
            return
        for lx in V:
            seq.append(lx)
            yield from rec(seq)
            seq.pop()

    if prefix == ():
        yield from rec([])
    else:
        yield from rec(seq)


def size(vocab: str, n: int) -> int:
    k = len(VOCABS[vocab])
    return sum(k**i for i in range(n + 1))
