"""E-LAY: every single (quick) / pair (thorough, short programs) deviation from a program's canonical layout.

Deviations at an inter-token gap: {no space, one space, two spaces, tab, backslash-newline (+indent), and inside
brackets: newline, newline+indent, comment+newline}; whole program: LF->CRLF, final newline removed, trailing
comment, form feed / blank / whitespace-only / comment lines before each logical line, indentation units
rewritten (tab, 8 spaces, 2 spaces, tab-after-spaces). Whether a variant is still Python is decided by CPython.
"""
from __future__ import annotations

import io
import re
import tokenize as T
from typing import Iterator

from . import corpus

_OPEN, _CLOSE = "([{", ")]}"
GAP_DEVS = ["", " ", "  ", "\t", "\\\n", " \\\n    ", "\f"]
BRACKET_DEVS = ["\n", "\n        ", " # c\n", "\n\n", "\n# c\n  "]
LINE_DEVS = ["\n", "   \n", "# c\n", "\t\n", "\f", "\f\n", "    # c\n", "\\\n", "  \f", " \f ", "\t\f"]
_INDENT = re.compile(r"(?m)^((?:    )+)")


def _offsets(src: str) -> list[int]:
    offs = [0]
    for ln in src.splitlines(keepends=True):
        offs.append(offs[-1] + len(ln))
    return offs


def gaps(src: str) -> tuple[list[tuple[int, int, int]], list[int]]:
    """([(gap start, gap end, bracket depth)], [offsets where a logical line starts])."""
    offs = _offsets(src)
    toks = list(T.generate_tokens(io.StringIO(src).readline))
    out: list[tuple[int, int, int]] = []
    starts: list[int] = []
    depth = 0
    prev_end: int | None = None
    at_line_start = True
    for t in toks:
        if t.type in (T.NEWLINE,):
            prev_end = None
            at_line_start = True
            continue
        if t.type in (T.INDENT, T.DEDENT, T.NL, T.COMMENT, T.ENDMARKER):
            if t.type in (T.NL, T.COMMENT) and depth == 0:
                prev_end = None
            continue
        s = offs[t.start[0] - 1] + t.start[1]
        e = offs[t.end[0] - 1] + t.end[1]
        if at_line_start:
            starts.append(offs[t.start[0] - 1])
            at_line_start = False
        if prev_end is not None and prev_end <= s:
            g = src[prev_end:s]
            if g.strip(" ") == "":  # canonical gaps only: nothing or spaces
                out.append((prev_end, s, depth))
        if t.type == T.OP and t.string in _OPEN:
            depth += 1
        elif t.type == T.OP and t.string in _CLOSE:
            depth = max(0, depth - 1)
        elif t.type == T.FSTRING_START:
            depth += 1  # inside an f-string literal a newline is never neutral
        elif t.type == T.FSTRING_END:
            depth = max(0, depth - 1)
        prev_end = e
    return out, starts


def single(src: str) -> Iterator[tuple[str, str]]:
    """(deviation kind, text) for every single deviation."""
    try:
        gs, starts = gaps(src)
    except (T.TokenError, SyntaxError, IndentationError):
        return
    for a, b, depth in gs:
        cur = src[a:b]
        for d in GAP_DEVS + (BRACKET_DEVS if depth > 0 else []):
            if d != cur:
                yield "gap", src[:a] + d + src[b:]
    yield "crlf", src.replace("\n", "\r\n")
    if src.endswith("\n"):
        yield "nofinal", src[:-1]
        yield "trailcomment", src[:-1] + "  # c\n"
        yield "trailcomment-nofinal", src[:-1] + " #c"
        yield "trailblank", src + "\n   \n"
        yield "trailws", src + "   "
        yield "trailcont", src + "\\\n"
        yield "trailcont-nofinal", src + "\\"
        yield "trailcont-blank", src + "\\\n\n"
    for st in starts:
        for d in LINE_DEVS:
            yield "line", src[:st] + d + src[st:]
    if _INDENT.search(src):
        for unit in ("\t", "        ", "  ", " ", "  \t", "\t    "):
            yield "indent", _INDENT.sub(lambda m: unit * (len(m.group(1)) // 4), src)
        # only the deepest level by tab: consistent in CPython when 1 tab == 8 columns
        yield "indent-mixed", src.replace("        ", "\t")


def pairs(src: str) -> Iterator[tuple[str, str]]:
    """Every pair of gap deviations (different gaps), plus every single deviation under CRLF."""
    try:
        gs, _ = gaps(src)
    except (T.TokenError, SyntaxError, IndentationError):
        return
    for i, (a1, b1, d1) in enumerate(gs):
        for x in GAP_DEVS + (BRACKET_DEVS if d1 > 0 else []):
            if x == src[a1:b1]:
                continue
            for a2, b2, d2 in gs[i + 1 :]:
                for y in GAP_DEVS + (BRACKET_DEVS if d2 > 0 else []):
                    if y != src[a2:b2]:
                        yield "gap2", src[:a1] + x + src[b1:a2] + y + src[b2:]
    for kind, txt in single(src):
        if kind != "crlf" and "\r" not in txt:
            yield kind + "+crlf", txt.replace("\n", "\r\n")


def programs(tier: str) -> list[str]:
    st = corpus.python_stmts()
    st = st[:250] if tier == "quick" else st
    return sorted(set(st) | set(corpus.PY_POOL), key=lambda s: (len(s), s))


# Indentation written in *units* (a tab, eight blanks, four blanks, one blank, a form feed): strings of up to two units in
# front of each line of a block.  Tab / blank mixes that are consistent for CPython or not, form feeds that restart the
# column, dedents to a level that does not exist - all only show with runs of blanks too long for a character alphabet.
INDENT_UNITS = ["\t", " " * 8, "    ", " ", "\f"]
INDENT_STRINGS = [""] + INDENT_UNITS + [a + b for a in INDENT_UNITS for b in INDENT_UNITS]
INDENT_HEADS = ["if a:\n", "def f():\n    if a:\n"]

# Characters that str.splitlines() treats as line ends although the tokenizer (and CPython) do not, in the places where
# they are legal - a comment, a string literal, a form-feed line - in front of text with non-ASCII characters or an error.
SEPARATORS = ["\f", "\x0b", "\x1c", "\x1d", "\x1e", "\x85", "\u2028", "\u2029"]
SEP_CARRIERS = ["# c{S}d\n", "s = 'a{S}b'\n", "{S}\n", "x = 1  # {S}\n", "s = '''a{S}\nb'''\n", "{S}", "t = f'a{S}{{x}}'\n"]
SEP_TAILS = ["é = 1\n", "x = 'é' + y\n", "é.b(ü)\n", "print(f'{é=}')\n", "y = 1\n", "1 +\n", "def f(:\n", "x = (é,\n", "$é.b\n", "é = $(ls é)\n"]


def indent_blocks(tier: str, lo: int, hi: int) -> Iterator[tuple[str, str]]:
    """Blocks of two lines (three in the thorough tier) whose indentation strings run over INDENT_STRINGS."""
    for i1 in INDENT_STRINGS[lo:hi]:
        for head in INDENT_HEADS:
            base = "    " if head.startswith("def") else ""
            for i2 in INDENT_STRINGS:
                for tail in ("", "d\n"):
                    yield "indent2", f"{head}{base}{i1}b\n{base}{i2}c\n{tail}"
                if tier == "thorough":
                    for i3 in INDENT_STRINGS:
                        yield "indent3", f"{head}{base}{i1}b\n{base}{i2}c\n{base}{i3}d\n"


def separators() -> Iterator[tuple[str, str]]:
    for sep in SEPARATORS:
        for car in SEP_CARRIERS:
            for tail in SEP_TAILS:
                yield "sep", car.replace("{{", "\0").replace("{S}", sep).replace("\0", "{") + tail
                yield "sep", "z = 0\n" + car.replace("{{", "\0").replace("{S}", sep).replace("\0", "{") + "\n" + tail


def units(tier: str) -> list[tuple]:
    n = len(programs(tier))
    us: list[tuple] = [("lay", tier, i, min(n, i + 5), "single") for i in range(0, n, 5)]
    if tier == "thorough":
        us += [("lay", tier, i, i + 1, "pairs") for i in range(min(n, 160))]
    step = 4 if tier == "quick" else 1
    us += [("lay", tier, i, min(len(INDENT_STRINGS), i + step), "indent") for i in range(0, len(INDENT_STRINGS), step)]
    us.append(("lay", tier, 0, 0, "sep"))
    return us


def expand(unit: tuple) -> Iterator[tuple[str, str]]:
    _, tier, lo, hi, what = unit
    if what == "indent":
        yield from indent_blocks(tier, lo, hi)
        return
    if what == "sep":
        yield from separators()
        return
    for src in programs(tier)[lo:hi]:
        if what == "single":
            yield "orig", src
            yield from single(src)
        else:
            yield from pairs(src)
