"""E-LAY: every single (quick) / pair (thorough, short programs) deviation from a program's canonical layout.

Deviations at an inter-token gap: {no space, one space, two spaces, tab, backslash-newline (+indent), and inside
brackets: newline, newline+indent, comment+newline}; whole program: LF->CRLF, final newline removed, trailing
comment, form feed / blank / whitespace-only / comment lines before each logical line, indentation units
rewritten (tab, 8 spaces, 2 spaces, tab-after-spaces). Whether a variant is still Python is decided by CPython.
"""
from __future__ import annotations

import io
import re
import tokenize as T
from typing import Iterator

from . import corpus

_OPEN, _CLOSE = "([{", ")]}"
GAP_DEVS = ["", " ", "  ", "\t", "\\\n", " \\\n    ", "\f"]
BRACKET_DEVS = ["\n", "\n        ", " # c\n", "\n\n", "\n# c\n  "]
LINE_DEVS = ["\n", "   \n", "# c\n", "\t\n", "\f", "\f\n", "    # c\n", "\\\n", "  \f", " \f ", "\t\f"]
_INDENT = re.compile(r"(?m)^((?:    )+)")


def _offsets(src: str) -> list[int]:
    offs = [0]
    for ln in src.splitlines(keepends=True):
        offs.append(offs[-1] + len(ln))
    return offs


def gaps(src: str) -> tuple[list[tuple[int, int, int]], list[int]]:
    """([(gap start, gap end, bracket depth)], [offsets where a logical line starts])."""
    offs = _offsets(src)
    toks = list(T.generate_tokens(io.StringIO(src).readline))
    out: list[tuple[int, int, int]] = []
    starts: list[int] = []
    depth = 0
    prev_end: int | None = None
    at_line_start = True
    for t in toks:
        if t.type in (T.NEWLINE,):
            prev_end = None
            at_line_start = True
            continue
        if t.type in (T.INDENT, T.DEDENT, T.NL, T.COMMENT, T.ENDMARKER):
            if t.type in (T.NL, T.COMMENT) and depth == 0:
                prev_end = None
            continue
        s = offs[t.start[0] - 1] + t.start[1]
        e = offs[t.end[0] - 1] + t.end[1]
        if at_line_start:
            starts.append(offs[t.start[0] - 1])
            at_line_start = False
        if prev_end is not None and prev_end <= s:
            g = src[prev_end:s]
            if g.strip(" ") == "":  # canonical gaps only: nothing or spaces
                out.append((prev_end, s, depth))
        if t.type == T.OP and t.string in _OPEN:
            depth += 1
        elif t.type == T.OP and t.string in _CLOSE:
            depth = max(0, depth - 1)
        elif t.type == T.FSTRING_START:
            depth += 1  # inside an f-string literal a newline is never neutral
        elif t.type == T.FSTRING_END:
            depth = max(0, depth - 1)
        prev_end = e
    return out, starts


def single(src: str) -> Iterator[tuple[str, str]]:
    """(deviation kind, text) for every single deviation."""
    try:
        gs, starts = gaps(src)
    except (T.TokenError, SyntaxError, IndentationError):
        return
    for a, b, depth in gs:
        cur = src[a:b]
        for d in GAP_DEVS + (BRACKET_DEVS if depth > 0 else []):
            if d != cur:
                yield "gap", src[:a] + d + src[b:]
    yield "crlf", src.replace("\n", "\r\n")
    if src.endswith("\n"):
        yield "nofinal", src[:-1]
        yield "trailcomment", src[:-1] + "  # c\n"
        yield "trailcomment-nofinal", src[:-1] + " #c"
        yield "trailblank", src + "\n   \n"
        yield "trailws", src + "   "
        yield "trailcont", src + "\\\n"
        yield "trailcont-nofinal", src + "\\"
        yield "trailcont-blank", src + "\\\n\n"
    for st in starts:
        for d in LINE_DEVS:
            yield "line", src[:st] + d + src[st:]
    if _INDENT.search(src):
        for unit in ("\t", "        ", "  ", " ", "  \t", "\t    "):
            yield "indent", _INDENT.sub(lambda m: unit * (len(m.group(1)) // 4), src)
        # only the deepest level by tab: consistent in CPython when 1 tab == 8 columns
        yield "indent-mixed", src.replace("        ", "\t")


def pairs(src: str) -> Iterator[tuple[str, str]]:
    """Every pair of gap deviations (different gaps), plus every single deviation under CRLF."""
    try:
        gs, _ = gaps(src)
    except (T.TokenError, SyntaxError, IndentationError):
        return
    for i, (a1, b1, d1) in enumerate(gs):
        for x in GAP_DEVS + (BRACKET_DEVS if d1 > 0 else []):
            if x == src[a1:b1]:
                continue
            for a2, b2, d2 in gs[i + 1 :]:
                for y in GAP_DEVS + (BRACKET_DEVS if d2 > 0 else []):
                    if y != src[a2:b2]:
                        yield "gap2", src[:a1] + x + src[b1:a2] + y + src[b2:]
    for kind, txt in single(src):
        if kind != "crlf" and "\r" not in txt:
            yield kind + "+crlf", txt.replace("\n", "\r\n")


def programs(tier: str) -> list[str]:
    st = corpus.python_stmts()
    st = st[:250] if tier == "quick" else st
    return sorted(set(st) | set(corpus.PY_POOL), key=lambda s: (len(s), s))


def units(tier: str) -> list[tuple]:
    n = len(programs(tier))
    us: list[tuple] = [("lay", tier, i, min(n, i + 5), "single") for i in range(0, n, 5)]
    if tier == "thorough":
        us += [("lay", tier, i, i + 1, "pairs") for i in range(min(n, 160))]
    return us


def expand(unit: tuple) -> Iterator[tuple[str, str]]:
    _, tier, lo, hi, what = unit
    for src in programs(tier)[lo:hi]:
        if what == "single":
            yield "orig", src
            yield from single(src)
        else:
            yield from pairs(src)
