"""E-CHR: all strings over a small character alphabet up to length n, optionally inside a carrier.

Unit = ("chr", alphabet name, carrier name, prefix, n).  Distinct by construction.
"""
from __future__ import annotations

from typing import Iterator

ALPHABETS: dict[str, str] = {
    # C03/C08: "nasty" characters
    # \xa0 and \x0b stand for the characters that are whitespace to str.isspace() but not to the tokenizer's patterns
    "nasty": "a1 \n\\'\"{}()#$!`\t\ré:\xa0\x0b",
    "nasty_ff": "a1 \n\\'\"{}()#$!`\t\ré:\f\xa0",
    "small": "a \n\\'\"{(#$!\t",
    # Python-lexicon layout characters (C01/C02/C11): continuation, comments, brackets, quotes, tabs, CR
    "pylay": "a1 \n\\\t#(,)'\":=\r;",
    # C10: inside f-strings
    "fstr": "a{}:!=r 3.\\'",
    "fstr2": "a{}:!=\n\"\\w,",
    "ind": " \ta\n\f#:",
    "indent4": "\t a\n",
}

CARRIERS: dict[str, tuple[str, str]] = {
    "bare": ("", ""),
    "line": ("", "\n"),
    "f2": ('f"', '"\n'),
    "f1": ("f'", "'\n"),
    "f3": ('f"""', '"""\n'),
    "rf2": ('rf"', '"\n'),
    "sub": ("$(", ")\n"),
    "subsq": ("![", "]\n"),
    "macro": ("f!(", ")\n"),
    "withm": ("with! a:\n ", "\n"),
    "macro_open": ("f!(", "\n"),
    "sub_open": ("$(", "\n"),
    "f2_open": ('f"', "\n"),
    "fb_open": ('f"{', "\n"),
    "fb": ('f"{', '}"\n'),
    "str3err": ('x = """', '""" +\n'),  # an error right after a multi-line token
    "fstr3err": ('x = f"""', '""" +\n'),
    "parenerr": ("f(", ") = 1\n"),  # an error whose span covers the bracket's lines
    "ifblock": ("if a:\n", "\n"),
    "str1": ("'", "'\n"),
    "str3": ('"""', '"""\n'),
    "paren": ("(", ")\n"),
    "call": ("x = f(", ")\n"),
}


def units(alpha: str, carrier: str, n: int, split: int = 2) -> list[tuple]:
    A = ALPHABETS[alpha]
    us: list[tuple] = [("chr", alpha, carrier, "", min(n, split - 1) if n >= split else n)]
    if n >= split:
        def rec(p: str) -> Iterator[str]:
            if len(p) == split:
                yield p
                return
            for c in A:
                yield from rec(p + c)

        for p in rec(""):
            us.append(("chr", alpha, carrier, p, n))
    return us


def expand(unit: tuple) -> Iterator[str]:
    _, alpha, carrier, prefix, n = unit
    A = ALPHABETS[alpha]
    pre, post = CARRIERS[carrier]

    def rec(s: str) -> Iterator[str]:
        yield pre + s + post
        if len(s) >= n:
            return
        for c in A:
            yield from rec(s + c)

    yield from rec(prefix)


def size(alpha: str, n: int) -> int:
    k = len(ALPHABETS[alpha])
    return sum(k**i for i in range(n + 1))
