"""E-EDIT: the complete single-edit neighbourhood of every corpus program (deviation bound 1; 2 optional).

Token level (Python corpus, tokens from CPython's tokenize; xonsh corpus, tokens from a 1-line regex that is
independent of the implementation): every proper token prefix, every single-token deletion, adjacent
transposition, replacement by / insertion of each lexeme of REPL, at every position.
Character level: every prefix, deletion, and insertion/replacement by each character of NASTY.
"""
from __future__ import annotations

import io
import re
import tokenize as T
from typing import Iterator

from . import corpus

REPL = [
    "a", "1", "'s'", "(", ")", "[", "]", "{", "}", ",", ":", ";", "=", ":=", "+", "*", "**", ".", "->", "@", "==",
    "not", "in", "is", "if", "else", "for", "lambda", "def", "class", "import", "from", "as", "with", "yield",
    "await", "async", "return", "pass", "del", "match", "case", "_", "try", "except", "None", "...", "/", "-", "~",
]
XREPL = ["$", "${", "$(", "$[", "!(", "![", "@(", "@$(", "?", "??", "!", "&&", "||", "`a`", "p'a'", ")", "]", "}", "a", "1", ",", "=", "|", ">"]
NASTY = "a1 \n\\'\"{}()#$!`\t:"

_SIG = {T.NAME, T.NUMBER, T.STRING, T.OP}
_XTOK = re.compile(r"[ \t]+|\n|\w+|[^\w\s]")


def py_tokens(src: str) -> list[tuple[int, int]]:
    """(start, end) character offsets of the significant tokens, by CPython's tokenizer."""
    lines = src.splitlines(keepends=True)
    offs = [0]
    for ln in lines:
        offs.append(offs[-1] + len(ln))
    out = []
    for tok in T.generate_tokens(io.StringIO(src).readline):
        if tok.type in _SIG or tok.type in (T.FSTRING_START, T.FSTRING_MIDDLE, T.FSTRING_END):
            s = offs[tok.start[0] - 1] + tok.start[1]
            e = offs[tok.end[0] - 1] + tok.end[1]
            if e > s:
                out.append((s, e))
    return out


def x_tokens(src: str) -> list[tuple[int, int]]:
    return [(m.start(), m.end()) for m in _XTOK.finditer(src) if not m.group().isspace()]


def token_edits(src: str, toks: list[tuple[int, int]], repl: list[str]) -> Iterator[tuple[str, str]]:
    """(kind, edited text) — the unedited program first."""
    yield "orig", src
    n = len(toks)
    for i, (s, e) in enumerate(toks):
        if i:
            p = src[:s].rstrip()
            yield "prefix", p + "\n"
        yield "delete", src[:s] + src[e:]
        if i + 1 < n:
            s2, e2 = toks[i + 1]
            if src[s:e] != src[s2:e2]:
                yield "swap", src[:s] + src[s2:e2] + src[e:s2] + src[s:e] + src[e2:]
        old = src[s:e]
        for lx in repl:
            if lx != old:
                yield "replace", src[:s] + lx + src[e:]
            yield "insert", src[:s] + lx + " " + src[s:]
    if n:
        e = toks[-1][1]
        for lx in repl:
            yield "insert", src[:e] + " " + lx + src[e:]


def char_edits(src: str, alphabet: str = NASTY) -> Iterator[str]:
    yield src
    for i in range(len(src)):
        yield src[:i]
        yield src[:i] + src[i + 1 :]
        for c in alphabet:
            yield src[:i] + c + src[i:]
            if c != src[i]:
                yield src[:i] + c + src[i + 1 :]
    for c in alphabet:
        yield src + c


# ------------------------------------------------------------------------------ units
def _py_programs(tier: str) -> list[str]:
    st = corpus.python_stmts()
    return st[:300] if tier == "quick" else st


def _x_programs() -> list[str]:
    return sorted(set(corpus.xonsh_tests()) | set(corpus.XSH_POOL), key=lambda s: (len(s), s))


def token_units(tier: str, xonsh: bool = False, python: bool = True) -> list[tuple]:
    us: list[tuple] = []
    if python:
        progs = _py_programs(tier)
        for i in range(0, len(progs), 4):
            us.append(("tedit", "py", i, min(len(progs), i + 4), tier))
    if xonsh:
        progs = _x_programs()
        for i in range(0, len(progs), 4):
            us.append(("tedit", "xsh", i, min(len(progs), i + 4), tier))
    return us


def token_expand(unit: tuple) -> Iterator[tuple[str, str]]:
    _, which, lo, hi, tier = unit
    if which == "py":
        progs = _py_programs(tier)[lo:hi]
        for src in progs:
            yield from token_edits(src, py_tokens(src), REPL)
    else:
        progs = _x_programs()[lo:hi]
        for src in progs:
            yield from token_edits(src, x_tokens(src), XREPL + REPL[:12])


def char_units(tier: str) -> list[tuple]:
    npy, nx = (60, 60) if tier == "quick" else (250, 10**6)
    us: list[tuple] = []
    py = corpus.python_stmts()[:npy]
    xs = _x_programs()[:nx]
    for i in range(0, len(py), 3):
        us.append(("cedit", "py", i, min(len(py), i + 3), npy))
    for i in range(0, len(xs), 3):
        us.append(("cedit", "xsh", i, min(len(xs), i + 3), nx))
    return us


def char_expand(unit: tuple) -> Iterator[str]:
    _, which, lo, hi, n = unit
    progs = corpus.python_stmts()[:n] if which == "py" else _x_programs()[:n]
    for src in progs[lo:hi]:
        yield from char_edits(src)
