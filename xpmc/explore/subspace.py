"""E-SUB: sub-grammar carriers (DESIGN §2.1) — every filling of a hole over the carrier's own small vocabulary.

The lookahead-heavy rules (parameter lists, targets, imports, patterns, with-items) have witnesses of 7-10
tokens but live in small sub-languages; a carrier fixes the surrounding tokens.
Unit = ("sub", carrier index, prefix of lexeme indices, n).
"""
from __future__ import annotations

from typing import Iterator

P_PARAMS = ["a", "b=1", "c:int", "*", "*d", "**e", "/", ",", "=", "*f:*g"]
P_LAMBDA = ["a", "b=1", "*", "*d", "**e", "/", ",", "=", ":"]
P_ARGS = ["a", "k=1", "*c", "**d", ",", ":=", "(x for x in y)", "=", "x for x in y", "1"]
P_SUBS = ["a", ":", ",", "*b", "1", "::", ":="]
P_TGT = ["a", "b.c", "d[0]", "*", ",", "(", ")", "[", "]", "f()"]
P_IMP = ["a", ".", "...", ",", "as", "*", "(", ")", "b"]
P_EXC = ["A", ",", "as", "e", "*", "(", ")", "B.c"]
P_PAT = ["1", "a", "_", "|", "as", "(", ")", "[", "]", "{", "}", ":", ",", "*", "**", ".", "A(", "=", "-", "'s'", "None"]
P_WITH = ["a", "as", "b", ",", "(", ")", "*", "c.d"]
P_CLS = ["(", ")", "B", "k=1", "*c", "**d", ",", "[T]", "[", "]", "T"]
P_DECO = ["a", ".", "b", "(", ")", "1", "[", "]", ":=", "lambda", ":"]
P_COMP = ["x", "for", "in", "if", "y", "async", ",", "*", "(", ")", ":", "1"]
P_OPS = ["a", "1", "+", "-", "*", "**", "/", "//", "%", "@", "<<", ">>", "&", "|", "^", "~", "not", "and", "or", "<", "==", "!=", "is", "in", "if", "else", "await", "(", ")"]
P_STR = ["'a'", '"b"', "'''c'''", "r'd'", "b'e'", "u'f'", "rb'g'", "\n", "\\\n", "#c\n", "+", ","]
P_TYPE = ["T", ":", "int", ",", "*Ts", "**P", "=", "(", ")", "[", "]"]
P_YIELD = ["yield", "from", "a", ",", "*b", "=", "(", ")", "await", "lambda", ":"]

CARRIERS: list[tuple[str, str, list[str]]] = [
    # (name, template, vocabulary); the length bound follows from the vocabulary size, see bound()
    ("params", "def f({}): pass\n", P_PARAMS),
    ("lambda", "lambda {}: 0\n", P_LAMBDA),
    ("args", "f({})\n", P_ARGS),
    ("subscript", "x[{}]\n", P_SUBS),
    ("assign", "{} = 1\n", P_TGT),
    ("augassign", "{} += 1\n", P_TGT),
    ("annassign", "{}: int = 1\n", P_TGT),
    ("for", "for {} in x: pass\n", P_TGT),
    ("del", "del {}\n", P_TGT),
    ("withas", "with x as {}: pass\n", P_TGT),
    ("compfor", "[0 for {} in x]\n", P_TGT),
    ("import", "import {}\n", P_IMP),
    ("from", "from {} import a\n", P_IMP),
    ("fromimport", "from a import {}\n", P_IMP),
    ("except", "try: pass\nexcept {}: pass\n", P_EXC),
    ("exceptstar", "try: pass\nexcept* {}: pass\n", P_EXC),
    ("case", "match x:\n    case {}: pass\n", P_PAT),
    ("with", "with {}: pass\n", P_WITH),
    ("class", "class A{}: pass\n", P_CLS),
    ("decorator", "@{}\ndef f(): pass\n", P_DECO),
    ("listcomp", "[{}]\n", P_COMP),
    ("dictcomp", "{{{}}}\n", P_COMP),
    ("genexp", "f({})\n", P_COMP),
    ("ops", "x = {}\n", P_OPS),
    ("strings", "x = ({})\n", P_STR),
    ("typeparams", "def f[{}](): pass\n", P_TYPE),
    ("typealias", "type A[{}] = int\n", P_TYPE),
    ("yield", "def f():\n    x = {}\n", P_YIELD),
    ("return", "def f():\n    return {}\n", P_YIELD),
    ("global", "def f():\n    global {}\n", ["a", ",", "b", "(", ")", "*"]),
    ("assert", "assert {}\n", ["a", ",", "b", "(", ")", "=", "*"]),
    ("raise", "raise {}\n", ["A", "from", "b", ",", "(", ")", "*", "None"]),
]
# xonsh-side carriers (C03 / C04 / C11): help chains, environment targets, subprocess words, macro arguments
X_HELP = ["a", "'s'", "?", "??", ".", "(", ")"]  # 7 lexemes: chains of five fit the quick bound
X_HELP2 = ["a", "'s'", "1", "?", "??", ".", "(", ")", "$X", "[0]"]
X_ENVT = ["$X", "${", "}", "a", "'k'", ".b", "[0]", "(", ")", ",", "*"]
X_PROC = ["a", "-l", "'q s'", "$X", "@(", "@$(", ")", "|", ">", "!", "?", "`g*`", "$(", "![", "]", "="]
X_MACRO = ["a", ",", "(", ")", "[", "]", "{", "}", "'s,'", "!", "$(", " ", "\n", "#c", ":"]
X_WITH = ["a", "as", "b", ",", "(", ")", "$X", "!", ":"]
XCARRIERS: list[tuple[str, str, list[str]]] = [
    ("help", "{}\n", X_HELP),
    ("help-arg", "f({}, 1)\n", X_HELP2),
    ("envtarget", "{} = 1\n", X_ENVT),
    ("envfor", "for {} in y: pass\n", X_ENVT),
    ("subproc", "$({})\n", X_PROC),
    ("subproc-sq", "r = ![{}]\n", X_PROC),
    ("macro", "f!({})\n", X_MACRO),
    ("macro-tail", "x = f!({}).y + 1\n", X_MACRO),
    ("withmacro", "with! {}:\n    raw\nz = 1\n", X_WITH),
]
BY_NAME = {c[0]: i for i, c in enumerate(CARRIERS)}
CAP = {"quick": 25_000, "thorough": 750_000}


def bound(V: list[str], tier: str, cap: int | None = None) -> int:
    """Largest n with |V|^n <= cap (default CAP[tier])."""
    n = 1
    while len(V) ** (n + 1) <= (cap or CAP[tier]):
        n += 1
    return n


def units(tier: str, only: list[str] | None = None, cap: int | None = None) -> list[tuple]:
    us: list[tuple] = []
    for ci, (name, _, V) in enumerate(CARRIERS):
        if only and name not in only:
            continue
        n = bound(V, tier, cap)
        us.append(("sub", ci, (), 1))
        for i in range(len(V)):
            for j in range(len(V)):
                us.append(("sub", ci, (i, j), n))
    return us


def xunits(tier: str, cap: int | None = None) -> list[tuple]:
    us: list[tuple] = []
    for ci, (name, _, V) in enumerate(XCARRIERS):
        n = bound(V, tier, cap)
        us.append(("xsub", ci, (), 1))
        for i in range(len(V)):
            for j in range(len(V)):
                us.append(("xsub", ci, (i, j), n))
    return us


def expand(unit: tuple) -> Iterator[str]:
    kind, ci, prefix, n = unit
    _, tmpl, V = (XCARRIERS if kind == "xsub" else CARRIERS)[ci]
    pre, post = tmpl.split("{}")
    pre, post = pre.replace("{{", "{"), post.replace("}}", "}")

    def rec(seq: list[str]) -> Iterator[str]:
        yield pre + " ".join(seq) + post
        if len(seq) >= n:
            return
        for lx in V:
            seq.append(lx)
            yield from rec(seq)
            seq.pop()

    yield from rec([V[i] for i in prefix])


def size(tier: str) -> int:
    tot = 0
    for _, _, V in CARRIERS:
        n = bound(V, tier)
        tot += sum(len(V) ** i for i in range(n + 1))
    return tot
