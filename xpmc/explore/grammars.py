"""E-GRAM: all small grammars in the generator's notation (DESIGN C17), as pegen.grammar objects and as text.

A grammar is {r: alternatives, x: auxiliary rule}; `r` is the rule under test.  Unit = ("gram", family, index).
"""
from __future__ import annotations

import itertools
from typing import Any, Iterator

from pegen.grammar import (
    Alt, Cut, Forced, Gather, Grammar, Group, NamedItem, NameLeaf, NegativeLookahead, Opt, PositiveLookahead, Repeat0, Repeat1, Rhs, Rule,
    StringLeaf,
)

A, B = "'a'", "'b'"


def leaf(x: str) -> Any:
    return StringLeaf(x) if x.startswith("'") else NameLeaf(x)


def seq(*items: Any) -> Group:
    return Group(Rhs([Alt([NamedItem(None, i) for i in items])]))


def choice(*items: Any) -> Group:
    return Group(Rhs([Alt([NamedItem(None, i)]) for i in items]))


def acted(tag: str, *items: Any) -> Group:
    """(n0=i0 n1=i1 { (tag, n0, n1) }) — a group with names and an action."""
    names = [f"v{k}" for k in range(len(items))]
    return Group(Rhs([Alt([NamedItem(n, i) for n, i in zip(names, items)], action=f"({tag!r}, {', '.join(names)})")]))


LEAVES = [A, B, "NAME", "x"]


def simple_items() -> list[Any]:
    out: list[Any] = []
    for l in LEAVES:
        out.append(lambda l=l: leaf(l))
        out.append(lambda l=l: Opt(leaf(l)))
        out.append(lambda l=l: Repeat0(leaf(l)))
        out.append(lambda l=l: Repeat1(leaf(l)))
        out.append(lambda l=l: PositiveLookahead(leaf(l)))
        out.append(lambda l=l: NegativeLookahead(leaf(l)))
    out.append(lambda: Cut())
    out.append(lambda: Forced(StringLeaf(A)))
    out.append(lambda: Forced(StringLeaf(B)))
    return out


def compound_items() -> list[Any]:
    out: list[Any] = []
    pairs = [(p, q) for p in LEAVES for q in LEAVES]
    for p, q in pairs:
        out.append(lambda p=p, q=q: seq(leaf(p), leaf(q)))
        if p != q:
            out.append(lambda p=p, q=q: choice(leaf(p), leaf(q)))
    for p, q in pairs[:8]:
        out.append(lambda p=p, q=q: Opt(seq(leaf(p), leaf(q))))
        out.append(lambda p=p, q=q: Repeat0(seq(leaf(p), leaf(q))))
        out.append(lambda p=p, q=q: Repeat1(seq(leaf(p), leaf(q))))
        out.append(lambda p=p, q=q: Repeat1(choice(leaf(p), leaf(q))) if p != q else Repeat0(choice(leaf(p), leaf("NAME"))))
        out.append(lambda p=p, q=q: PositiveLookahead(seq(leaf(p), leaf(q))))
        out.append(lambda p=p, q=q: NegativeLookahead(choice(leaf(p), leaf(q))))
    for s in (A, B):
        for e in LEAVES:
            out.append(lambda s=s, e=e: Gather(leaf(s), leaf(e)))
        out.append(lambda s=s: Gather(leaf(s), seq(leaf("NAME"), leaf(B if s == A else A))))
        out.append(lambda s=s: Gather(leaf(s), choice(leaf("NAME"), leaf(B if s == A else A))))
    # groups with names and actions: equal str(), different repr() — helper de-duplication must keep them apart
    out.append(lambda: acted("P", leaf(A), leaf("NAME")))
    out.append(lambda: acted("Q", leaf(A), leaf("NAME")))
    out.append(lambda: acted("P", leaf("NAME")))
    out.append(lambda: Repeat1(acted("R", leaf(A), leaf(B))))
    out.append(lambda: Opt(acted("S", leaf(B))))
    out.append(lambda: seq(leaf(A), Opt(leaf(B)), leaf("NAME")))
    # a gather whose element is itself a repetition (the runtime helper sees a failing element as [] there, not as None)
    for sep, el in ((A, B), (B, A), (A, "NAME"), (B, "x")):
        out.append(lambda sep=sep, el=el: Gather(leaf(sep), Group(Rhs([Alt([NamedItem(None, Repeat1(leaf(el)))])]))))
    # a forced token as the only content of a group (the inlining shortcut must not evaluate its operand eagerly)
    out.append(lambda: Group(Rhs([Alt([NamedItem(None, Forced(StringLeaf(A)))])])))
    out.append(lambda: Group(Rhs([Alt([NamedItem(None, Forced(StringLeaf(B)))])])))
    # groups WITHOUT an action of their own around an optional / a group that has one: they print alike (str) and differ (repr)
    out.append(lambda: seq(Opt(acted("P", leaf(B))), leaf(A)))
    out.append(lambda: seq(Opt(acted("Q", leaf(B))), leaf(A)))
    out.append(lambda: seq(leaf(A), acted("P", leaf("NAME"))))
    out.append(lambda: seq(leaf(A), acted("Q", leaf("NAME"))))
    out.append(lambda: choice(acted("P", leaf(A), leaf(B)), leaf(A)))
    out.append(lambda: choice(acted("Q", leaf(A), leaf(B)), leaf(A)))
    out.append(lambda: choice(seq(leaf(A), leaf(B)), leaf(A)))
    out.append(lambda: choice(leaf(A), seq(leaf(A), leaf(B))))
    out.append(lambda: Group(Rhs([Alt([NamedItem(None, leaf(A)), NamedItem(None, Cut()), NamedItem(None, leaf(B))]), Alt([NamedItem(None, leaf(A))])])))
    return out


AUX = {
    "lit": lambda: Rule("x", None, Rhs([Alt([NamedItem(None, leaf(A))])])),
    "two": lambda: Rule("x", None, Rhs([Alt([NamedItem(None, leaf(A)), NamedItem(None, leaf(B))]), Alt([NamedItem(None, leaf("NAME"))])])),
    "rrec": lambda: Rule("x", None, Rhs([Alt([NamedItem(None, leaf(A)), NamedItem(None, leaf("x"))]), Alt([NamedItem(None, leaf(B))])]), memo=True),
    "act": lambda: Rule("x", None, Rhs([Alt([NamedItem("p", leaf("NAME")), NamedItem("q", Opt(leaf(A)))], action="('X', p, q)")])),
}


def mk(alts: list[list[Any]], aux: str, memo: bool = False, named: bool = False) -> Grammar:
    """alts = list of item lists (already instantiated)."""
    ralts = []
    for k, items in enumerate(alts):
        if named:
            nitems = []
            names = []
            for j, it in enumerate(items):
                if isinstance(it, (Cut, PositiveLookahead, NegativeLookahead, Forced)):
                    nitems.append(NamedItem(None, it))
                else:
                    n = f"n{j}"
                    names.append(n)
                    nitems.append(NamedItem(n, it))
            action = f"('ALT{k}', {', '.join(names)})" if names else None
            ralts.append(Alt(nitems, action=action))
        else:
            ralts.append(Alt([NamedItem(None, it) for it in items]))
    rules = [Rule("r", None, Rhs(ralts), memo=memo), AUX[aux]()]
    rules.append(Rule("start", None, Rhs([Alt([NamedItem(None, leaf("r")), NamedItem(None, leaf("NEWLINE")), NamedItem(None, leaf("ENDMARKER"))])])))
    return Grammar(rules, [])


def _icut(items: list[Any]) -> int:
    for i, it in enumerate(items):
        if isinstance(it, Cut):
            return i
    return -1


# ------------------------------------------------------------------ families
def family_sizes(tier: str) -> dict[str, int]:
    s, c = len(simple_items()), len(compound_items())
    return {"one": s + c, "two-items": (s + c) ** 2, "two-alts": (s + c) ** 2, "three": s**3 if tier == "thorough" else 0}


def units(tier: str) -> list[tuple]:
    n = len(simple_items()) + len(compound_items())
    us: list[tuple] = [("gram", "one", 0, tier)]
    for i in range(n):
        us.append(("gram", "two-items", i, tier))
        us.append(("gram", "two-alts", i, tier))
    ns = len(simple_items())
    for i in range(ns):
        us.append(("gram", "alt21", i, tier))
        if tier == "thorough":
            us.append(("gram", "three", i, tier))
    for i in range(len(leftrec_shapes())):
        us.append(("gram", "leftrec", i, tier))
    for i in range(len(invalid_shapes())):
        us.append(("gram", "invalid", i, tier))
    return us


def expand(unit: tuple) -> Iterator[tuple[dict, Grammar]]:
    """(description, grammar)"""
    _, fam, i, tier = unit
    S, C = simple_items(), compound_items()
    I = S + C
    auxes = ["lit", "two"] if tier == "quick" else list(AUX)
    if fam == "one":
        for k, f in enumerate(I):
            for aux in AUX:
                for memo in (False, True):
                    for named in (False, True):
                        yield {"fam": fam, "items": [k], "aux": aux, "memo": memo, "named": named}, mk([[f()]], aux, memo, named)
    elif fam == "two-items":
        for k, f in enumerate(I):
            for aux in auxes:
                yield {"fam": fam, "items": [i, k], "aux": aux, "memo": False, "named": False}, mk([[I[i](), f()]], aux)
            yield {"fam": fam, "items": [i, k], "aux": "act", "memo": True, "named": True}, mk([[I[i](), f()]], "act", True, True)
    elif fam == "two-alts":
        for k, f in enumerate(I):
            for aux in auxes:
                yield {"fam": fam, "items": [i, k], "aux": aux, "memo": False, "named": False}, mk([[I[i]()], [f()]], aux)
            yield {"fam": fam, "items": [i, k], "aux": "rrec", "memo": False, "named": True}, mk([[I[i]()], [f()]], "rrec", False, True)
    elif fam == "alt21":
        for j, k in itertools.product(range(len(S)), repeat=2):
            yield {"fam": fam, "items": [i, j, k], "aux": "two", "memo": False, "named": False}, mk([[S[i](), S[j]()], [S[k]()]], "two")
            if (j + k) % 3 == 0:
                yield {"fam": fam, "items": [i, j, k], "aux": "lit", "memo": True, "named": True}, mk([[S[i](), S[j]()], [S[k]()]], "lit", True, True)
    elif fam == "three":
        for j, k in itertools.product(range(len(S)), repeat=2):
            yield {"fam": fam, "items": [i, j, k], "aux": "two", "memo": False, "named": False}, mk([[S[i](), S[j](), S[k]()]], "two")
    elif fam == "leftrec":
        name, build = leftrec_shapes()[i]
        for variant, g in build():
            yield {"fam": fam, "shape": name, "variant": variant}, g
    elif fam == "invalid":
        name, build = invalid_shapes()[i]
        for variant, g in build():
            yield {"fam": fam, "shape": name, "variant": variant}, g


def rebuild(desc: dict, tier: str = "thorough") -> Grammar:
    """The grammar a description denotes (for replays)."""
    S, C = simple_items(), compound_items()
    I = S + C
    fam = desc["fam"]
    if fam in ("leftrec", "invalid"):
        for name, build in (leftrec_shapes() if fam == "leftrec" else invalid_shapes()):
            if name == desc["shape"]:
                for variant, g in build():
                    if variant == desc["variant"]:
                        return g
        raise KeyError(desc)
    it = desc["items"]
    if fam == "one":
        alts = [[I[it[0]]()]]
    elif fam == "two-items":
        alts = [[I[it[0]](), I[it[1]]()]]
    elif fam == "two-alts":
        alts = [[I[it[0]]()], [I[it[1]]()]]
    elif fam == "alt21":
        alts = [[S[it[0]](), S[it[1]]()], [S[it[2]]()]]
    else:
        alts = [[S[it[0]](), S[it[1]](), S[it[2]]()]]
    return mk(alts, desc["aux"], desc["memo"], desc["named"])


def leftrec_shapes() -> list[tuple[str, Any]]:
    """Direct and mutual left recursion, with every tail item."""
    S = simple_items()

    def R(name: str, alts: list[list[Any]], memo: bool = False, acts: list[str | None] | None = None) -> Rule:
        ra = []
        for k, items in enumerate(alts):
            act = acts[k] if acts else None
            if act:
                named = [NamedItem(None if isinstance(it, (Cut, PositiveLookahead, NegativeLookahead, Forced)) else f"n{j}", it)
                         for j, it in enumerate(items)]
                names = [n.name for n in named if n.name]
                ra.append(Alt(named, action="('L', " + ", ".join(names) + ")"))
            else:
                ra.append(Alt([NamedItem(None, it) for it in items]))
        return Rule(name, None, Rhs(ra), memo=memo)

    def start() -> Rule:
        return Rule("start", None, Rhs([Alt([NamedItem(None, leaf("r")), NamedItem(None, leaf("NEWLINE")), NamedItem(None, leaf("ENDMARKER"))])]))

    def direct():
        for k, f in enumerate(S):
            for base in (A, "NAME"):
                yield f"{k}:{base}", Grammar([R("r", [[leaf("r"), f()], [leaf(base)]]), AUX["lit"](), start()], [])
                yield f"{k}:{base}:act", Grammar([R("r", [[leaf("r"), f()], [leaf(base)]], acts=["('L', n0, n1)", None]), AUX["lit"](), start()], [])
                yield f"{k}:{base}:2", Grammar([R("r", [[leaf("r"), f(), leaf(B)], [leaf("r"), leaf(A)], [leaf(base)]]), AUX["two"](), start()], [])

    def mutual():
        for k, f in enumerate(S):
            for memo in (False, True):
                # r -> m ... ; m -> r ...   (leader = the alphabetically least rule on every cycle = 'm')
                yield f"{k}:m{memo}", Grammar(
                    [R("r", [[leaf("m"), f()], [leaf(A)]]), R("m", [[leaf("r"), leaf(B)], [leaf("NAME")]], memo=memo), AUX["lit"](), start()], [])
                # leader 'r' (other rule named 'z')
                yield f"{k}:z{memo}", Grammar(
                    [R("r", [[leaf("z"), leaf(B)], [leaf(A)]]), R("z", [[leaf("r"), f()], [leaf("NAME")]], memo=memo), AUX["lit"](), start()], [])

    def nested():
        for k, f in enumerate(S):
            # left recursion through a group and through a gather / repeat
            yield f"{k}:group", Grammar([R("r", [[Group(Rhs([Alt([NamedItem(None, leaf("r")), NamedItem(None, f())])]))], [leaf(A)]]), AUX["lit"](), start()], [])
            yield f"{k}:plus", Grammar([R("r", [[Repeat1(leaf("r")), f()], [leaf(A)]]), AUX["lit"](), start()], [])
            yield f"{k}:two-cycles", Grammar(
                [R("r", [[leaf("r"), leaf(A)], [leaf("m"), f()], [leaf(B)]]), R("m", [[leaf("r"), leaf("NAME")]]), AUX["lit"](), start()], [])

    return [("direct", direct), ("mutual", mutual), ("nested", nested)]


def invalid_shapes() -> list[tuple[str, Any]]:
    """pegen's diagnostic convention: an alternative that refers to a rule named invalid_* is tried only while the
    parser's call_invalid_rules flag is set, and a rule named *_without_invalid clears the flag for its own duration.
    Shapes that take the generator's inlining shortcuts (single-item alternatives) next to shapes that do not."""
    S = simple_items()

    def R(name: str, alts: list[list[Any]], acts: list[str | None] | None = None) -> Rule:
        ra = []
        for k, items in enumerate(alts):
            act = acts[k] if acts else None
            if act:
                named = [NamedItem(None if isinstance(it, (Cut, PositiveLookahead, NegativeLookahead, Forced)) else f"n{j}", it) for j, it in enumerate(items)]
                ra.append(Alt(named, action="(" + repr(act) + ", " + ", ".join(n.name for n in named if n.name) + ")"))
            else:
                ra.append(Alt([NamedItem(None, it) for it in items]))
        return Rule(name, None, Rhs(ra))

    def start() -> Rule:
        return Rule("start", None, Rhs([Alt([NamedItem(None, leaf("r")), NamedItem(None, leaf("NEWLINE")), NamedItem(None, leaf("ENDMARKER"))])]))

    def inv(body: str = "ba") -> Rule:
        items = {"ba": [leaf(B), leaf(A)], "b": [leaf(B)], "name": [leaf("NAME"), leaf(A)]}[body]
        return R("invalid_x", [items], acts=["INV"])

    def plain():
        for k, f in enumerate(S):
            for body in ("ba", "b", "name"):
                # single-item alternatives (inlined), the invalid_ rule first / last; with a second item; with an action
                yield f"{k}:{body}:first", Grammar([R("r", [[leaf("invalid_x")], [f()]]), inv(body), AUX["lit"](), start()], [])
                yield f"{k}:{body}:last", Grammar([R("r", [[f()], [leaf("invalid_x")]]), inv(body), AUX["lit"](), start()], [])
                yield f"{k}:{body}:mid", Grammar([R("r", [[leaf(A)], [leaf("invalid_x")], [f()]]), inv(body), AUX["lit"](), start()], [])
                yield f"{k}:{body}:two", Grammar([R("r", [[f(), leaf("invalid_x")], [leaf(B)]]), inv(body), AUX["lit"](), start()], [])
                yield f"{k}:{body}:act", Grammar([R("r", [[leaf("invalid_x")], [f()]], acts=["A0", None]), inv(body), AUX["lit"](), start()], [])
                yield f"{k}:{body}:group", Grammar([R("r", [[Group(Rhs([Alt([NamedItem(None, leaf("invalid_x"))]), Alt([NamedItem(None, f())])]))], [leaf(B)]]), inv(body), AUX["lit"](), start()], [])

    def without():
        for k, f in enumerate(S):
            # a *_without_invalid rule whose alternatives are single items (inlined) and one that is not, used before other rules
            yield f"{k}:inl", Grammar([R("r", [[leaf("w_without_invalid")], [leaf("invalid_x")], [f()]]), R("w_without_invalid", [[leaf(A)], [leaf("NAME")]]),
                                       inv("b"), R("z", [[leaf(B), f()]]), AUX["lit"](), start()], [])
            yield f"{k}:inv", Grammar([R("r", [[leaf("w_without_invalid"), leaf(B)], [leaf("invalid_x")], [f()]]),
                                       R("w_without_invalid", [[leaf("invalid_x")], [leaf(A)]]), inv("b"), AUX["lit"](), start()], [])
            yield f"{k}:seq", Grammar([R("r", [[leaf("w_without_invalid")], [leaf("invalid_x"), f()]], acts=[None, "A1"]),
                                       R("w_without_invalid", [[leaf(A), leaf("invalid_x")], [leaf(A)]], acts=["W0", None]), inv("b"), AUX["lit"](), start()], [])

    return [("plain", plain), ("without", without)]


# ------------------------------------------------------------------ rendering to grammar text
def render_item(node: Any) -> str:
    if isinstance(node, (StringLeaf, NameLeaf)):
        return node.value
    if isinstance(node, Group):
        return "(" + render_rhs(node.rhs) + ")"
    if isinstance(node, Opt):
        return _paren(node.node) + "?"
    if isinstance(node, Repeat0):
        return _paren(node.node) + "*"
    if isinstance(node, Repeat1):
        return _paren(node.node) + "+"
    if isinstance(node, Gather):
        return _paren(node.separator) + "." + _paren(node.node) + "+"
    if isinstance(node, PositiveLookahead):
        return "&" + _paren(node.node)
    if isinstance(node, NegativeLookahead):
        return "!" + _paren(node.node)
    if isinstance(node, Forced):
        return "&&" + _paren(node.node)
    if isinstance(node, Cut):
        return "~"
    raise TypeError(node)


def _paren(node: Any) -> str:
    return render_item(node)


def render_alt(alt: Alt) -> str:
    parts = []
    for it in alt.items:
        s = render_item(it.item)
        parts.append(f"{it.name}={s}" if it.name else s)
    out = " ".join(parts)
    if alt.action:
        out += " { " + alt.action + " }"
    return out


def render_rhs(rhs: Rhs) -> str:
    return " | ".join(render_alt(a) for a in rhs.alts)


def render(g: Grammar) -> str:
    lines = []
    for r in g.rules.values():
        lines.append(f"{r.name}{' (memo)' if r.memo else ''}: {render_rhs(r.rhs)}")
    return "\n".join(lines) + "\n"
