"""E-ASDL: parent-field-child paths of Python's own abstract grammar, rendered by ast.unparse (DESIGN §2.1).

The abstract grammar is read from the running interpreter (3.12: `ast.BinOp.__doc__`), so every node type of
every sort, every field and every field shape is enumerated without a hand-written list.
Unit = ("asdl", root class name, depth k).  A unit yields (text, mode) pairs, de-duplicated within the unit.
"""
from __future__ import annotations

import ast
import re
import warnings
from functools import lru_cache
from typing import Any, Iterator

warnings.simplefilter("ignore")

_SIG = re.compile(r"^(\w+)\((.*)\)$", re.S)
SORTS = ["stmt", "expr", "pattern", "arguments", "arg", "keyword", "alias", "withitem", "comprehension", "excepthandler", "match_case", "type_param"]
OPSORTS = ["boolop", "operator", "unaryop", "cmpop", "expr_context"]
BUILTIN = {"identifier", "int", "string", "constant"}


@lru_cache(maxsize=None)
def classes(sort: str) -> tuple[type, ...]:
    base = getattr(ast, sort)
    subs = [c for c in base.__subclasses__() if c.__module__ in ("ast", "_ast")]
    if not subs:
        return (base,)  # product type (arguments, arg, keyword, ...)
    # drop deprecated aliases (Num, Str, ...) which are subclasses of Constant, not of the sort
    return tuple(sorted(subs, key=lambda c: c.__name__))


@lru_cache(maxsize=None)
def fields(cls: type) -> tuple[tuple[str, str, str], ...]:
    """((field name, type, quantifier '' | '?' | '*'), ...) from the class docstring."""
    doc = (cls.__doc__ or "").strip()
    m = _SIG.match(doc.split("\n")[0].strip()) if "(" in doc.split("\n")[0] else None
    if not m:
        # sum-type base classes document all alternatives; product types document themselves
        m = _SIG.match(doc.replace("\n", " "))
    out = []
    if m and m.group(2).strip():
        for part in m.group(2).split(","):
            ty, name = part.split()
            q = ""
            if ty.endswith("?") or ty.endswith("*"):
                ty, q = ty[:-1], ty[-1]
            out.append((name, ty, q))
    assert [f[0] for f in out] == list(cls._fields), (cls, out, cls._fields)
    return tuple(out)


IDENTS = ["a", "bb", "_", "é"]
CONSTS = [1, 0, 1.5, 1j, "s", b"b", True, False, None, Ellipsis, 10**20, 1e100, "it's", 'q"', "\n", 0.0]
INTS = {("ImportFrom", "level"): [0, 1, 2, 3, 4], ("AnnAssign", "simple"): [1, 0], ("comprehension", "is_async"): [0, 1],
        ("FormattedValue", "conversion"): [-1, 115, 114, 97]}
STRINGS = {("Constant", "kind"): [None, "u"]}

# list fields that must not be empty (and their minimal length) for the node to have a concrete syntax
MINLEN = {
    ("FunctionDef", "body"): 1, ("AsyncFunctionDef", "body"): 1, ("ClassDef", "body"): 1, ("For", "body"): 1,
    ("AsyncFor", "body"): 1, ("While", "body"): 1, ("If", "body"): 1, ("With", "body"): 1, ("With", "items"): 1,
    ("AsyncWith", "body"): 1, ("AsyncWith", "items"): 1, ("Try", "body"): 1, ("TryStar", "body"): 1,
    ("Try", "handlers"): 1, ("TryStar", "handlers"): 1, ("ExceptHandler", "body"): 1, ("match_case", "body"): 1,
    ("Match", "cases"): 1, ("Delete", "targets"): 1, ("Assign", "targets"): 1, ("Import", "names"): 1,
    ("ImportFrom", "names"): 1, ("Global", "names"): 1, ("Nonlocal", "names"): 1, ("BoolOp", "values"): 2,
    ("Compare", "ops"): 1, ("Compare", "comparators"): 1, ("MatchOr", "patterns"): 2, ("Set", "elts"): 1,
    ("ListComp", "generators"): 1, ("SetComp", "generators"): 1, ("DictComp", "generators"): 1,
    ("GeneratorExp", "generators"): 1,
}


# list fields whose elements may be None in the abstract grammar's practice (keyword-only parameters without default,
# dictionary unpacking): the positions of the None entries are part of the shape
NONE_SHAPES = {
    ("arguments", "kw_defaults"): [[1, None], [None, 1], [1, None, 1], [None, 1, None], [None, None, 1]],
    ("Dict", "keys"): [[None], [1, None], [None, 1], [None, None]],
}


def minimal(sort: str) -> Any:
    m = {
        "expr": lambda: ast.Name("a", ast.Load()),
        "stmt": lambda: ast.Pass(),
        "pattern": lambda: ast.MatchValue(ast.Constant(1)),
        "arguments": lambda: ast.arguments([], [], None, [], [], None, []),
        "arg": lambda: ast.arg("a", None, None),
        "keyword": lambda: ast.keyword("k", ast.Name("a", ast.Load())),
        "alias": lambda: ast.alias("a", None),
        "withitem": lambda: ast.withitem(ast.Name("a", ast.Load()), None),
        "comprehension": lambda: ast.comprehension(ast.Name("a", ast.Store()), ast.Name("a", ast.Load()), [], 0),
        "excepthandler": lambda: ast.ExceptHandler(None, None, [ast.Pass()]),
        "match_case": lambda: ast.match_case(ast.MatchValue(ast.Constant(1)), None, [ast.Pass()]),
        "type_param": lambda: ast.TypeVar("T", None),
        "boolop": lambda: ast.And(), "operator": lambda: ast.Add(), "unaryop": lambda: ast.Not(), "cmpop": lambda: ast.Eq(),
        "expr_context": lambda: ast.Load(),
        "identifier": lambda: "a", "int": lambda: 0, "string": lambda: None, "constant": lambda: 1,
    }
    return m[sort]()


def minimal_of(cls: type) -> Any:
    kw = {}
    for name, ty, q in fields(cls):
        if q == "?":
            kw[name] = None
        elif q == "*":
            kw[name] = [minimal(ty) for _ in range(MINLEN.get((cls.__name__, name), 0))]
        else:
            kw[name] = INTS.get((cls.__name__, name), [minimal(ty)])[0] if ty == "int" else minimal(ty)
    return fix(cls(**kw))


def fix(node: Any) -> Any:
    """Restore the couplings between sibling list fields after one of them was varied."""
    n = type(node).__name__
    if n == "Dict":
        _pad(node.keys, node.values, "expr")
    elif n == "Compare":
        _pad2(node.ops, "cmpop", node.comparators, "expr")
    elif n == "MatchMapping":
        while len(node.keys) < len(node.patterns):
            node.keys.append(ast.Constant(len(node.keys)))
        while len(node.patterns) < len(node.keys):
            node.patterns.append(minimal("pattern"))
    elif n == "MatchClass":
        while len(node.kwd_attrs) < len(node.kwd_patterns):
            node.kwd_attrs.append("k%d" % len(node.kwd_attrs))
        while len(node.kwd_patterns) < len(node.kwd_attrs):
            node.kwd_patterns.append(minimal("pattern"))
    elif n == "arguments":
        npos = len(node.posonlyargs) + len(node.args)
        while len(node.defaults) > npos:
            node.args.append(ast.arg("p%d" % len(node.args), None, None))
            npos += 1
        while len(node.kw_defaults) < len(node.kwonlyargs):
            node.kw_defaults.append(None)
        while len(node.kwonlyargs) < len(node.kw_defaults):
            node.kwonlyargs.append(ast.arg("q%d" % len(node.kwonlyargs), None, None))
        # distinct parameter names are a compile-time matter, not a parse-time one
    return node


def _pad(a: list, b: list, sort: str) -> None:
    while len(a) < len(b):
        a.append(minimal(sort))
    while len(b) < len(a):
        b.append(minimal(sort))


def _pad2(a: list, sa: str, b: list, sb: str) -> None:
    while len(a) < len(b):
        a.append(minimal(sa))
    while len(b) < len(a):
        b.append(minimal(sb))


def child_values(cls: type, name: str, ty: str, depth: int) -> Iterator[Any]:
    """All values a single slot of type `ty` takes at this depth."""
    key = (cls.__name__, name)
    if ty == "identifier":
        yield from IDENTS
    elif ty == "constant":
        yield from CONSTS
    elif ty == "int":
        yield from INTS.get(key, [0, 1])
    elif ty == "string":
        yield from STRINGS.get(key, [None])
    else:
        for c in classes(ty):
            yield from variants(c, depth - 1)


def variants(cls: type, depth: int) -> Iterator[Any]:
    """Nodes of class cls: the minimal one, and (depth>0) every single-field variation with children of depth-1."""
    yield minimal_of(cls)
    if depth <= 0:
        return
    for name, ty, q in fields(cls):
        if ty == "expr_context":
            continue
        minlen = MINLEN.get((cls.__name__, name), 0)
        if q == "":
            for v in child_values(cls, name, ty, depth):
                node = minimal_of(cls)
                setattr(node, name, v)
                yield fix(node)
        elif q == "?":
            for v in child_values(cls, name, ty, depth):
                if v is None and ty != "constant":
                    continue
                node = minimal_of(cls)
                setattr(node, name, v)
                yield fix(node)
        else:
            for ln in (0, 1, 2, 3):
                if ln < minlen or ln == minlen:
                    continue
                node = minimal_of(cls)
                setattr(node, name, [_distinct(minimal(ty), i) for i in range(ln)])
                yield fix(node)
            for shape in NONE_SHAPES.get((cls.__name__, name), ()):
                node = minimal_of(cls)
                setattr(node, name, [None if x is None else _distinct(minimal(ty), i) for i, x in enumerate(shape)])
                yield fix(node)
            for v in child_values(cls, name, ty, depth):
                for ln, pos in ((max(1, minlen), 0), (max(2, minlen), 1), (max(2, minlen), 0)):
                    if pos >= ln:
                        continue
                    node = minimal_of(cls)
                    lst = [_distinct(minimal(ty), i) for i in range(ln)]
                    lst[pos] = v
                    setattr(node, name, lst)
                    yield fix(node)


def _distinct(v: Any, i: int) -> Any:
    if i and isinstance(v, str):
        return v + str(i)
    if i and isinstance(v, ast.Name):
        v.id = "abc"[i % 3] + ("" if i < 3 else str(i))
    if i and isinstance(v, ast.arg):
        v.arg = "abc"[i % 3]
    if i and isinstance(v, ast.keyword):
        v.arg = "k%d" % i
    if i and isinstance(v, ast.alias):
        v.name = "m%d" % i
    if i and isinstance(v, ast.TypeVar):
        v.name = "T%d" % i
    return v


def wrap(node: Any) -> Iterator[tuple[Any, str]]:
    """(module-level tree, mode) for a node of any sort."""
    a = lambda: ast.Name("a", ast.Load())  # noqa: E731
    body = lambda: [ast.Pass()]  # noqa: E731
    if isinstance(node, ast.stmt):
        yield ast.Module([node], []), "exec"
    elif isinstance(node, ast.expr):
        yield ast.Module([ast.Expr(node)], []), "exec"
        yield ast.Expression(node), "eval"
    elif isinstance(node, ast.pattern):
        yield ast.Module([ast.Match(a(), [ast.match_case(node, None, body())])], []), "exec"
    elif isinstance(node, ast.arguments):
        yield ast.Module([ast.FunctionDef("f", node, body(), [], None, None, [])], []), "exec"
        yield ast.Module([ast.Expr(ast.Lambda(node, a()))], []), "exec"
    elif isinstance(node, ast.arg):
        for slot in ("posonlyargs", "args", "vararg", "kwonlyargs", "kwarg"):
            args = minimal("arguments")
            if slot in ("vararg", "kwarg"):
                setattr(args, slot, node)
            else:
                getattr(args, slot).append(node)
            yield ast.Module([ast.FunctionDef("f", fix(args), body(), [], None, None, [])], []), "exec"
    elif isinstance(node, ast.keyword):
        yield ast.Module([ast.Expr(ast.Call(a(), [], [node]))], []), "exec"
        yield ast.Module([ast.ClassDef("C", [], [node], body(), [], [])], []), "exec"
    elif isinstance(node, ast.alias):
        yield ast.Module([ast.Import([node])], []), "exec"
        yield ast.Module([ast.ImportFrom("m", [node], 0)], []), "exec"
    elif isinstance(node, ast.withitem):
        yield ast.Module([ast.With([node], body(), None)], []), "exec"
        yield ast.Module([ast.With([node, minimal("withitem")], body(), None)], []), "exec"
    elif isinstance(node, ast.comprehension):
        yield ast.Module([ast.Expr(ast.ListComp(a(), [node]))], []), "exec"
        yield ast.Module([ast.Expr(ast.GeneratorExp(a(), [minimal("comprehension"), node]))], []), "exec"
    elif isinstance(node, ast.excepthandler):
        yield ast.Module([ast.Try(body(), [node], [], [])], []), "exec"
        yield ast.Module([ast.TryStar(body(), [node], [], [])], []), "exec"
    elif isinstance(node, ast.match_case):
        yield ast.Module([ast.Match(a(), [node])], []), "exec"
    elif isinstance(node, ast.type_param):
        yield ast.Module([ast.FunctionDef("f", minimal("arguments"), body(), [], None, None, [node])], []), "exec"
        yield ast.Module([ast.ClassDef("C", [], [], body(), [], [node])], []), "exec"
        yield ast.Module([ast.TypeAlias(ast.Name("A", ast.Store()), [node], a())], []), "exec"


def units(k: int) -> list[tuple]:
    us = []
    for sort in SORTS:
        for c in classes(sort):
            us.append(("asdl", sort, c.__name__, k))
    return us


def expand(unit: tuple) -> Iterator[tuple[str, str]]:
    _, sort, cname, k = unit
    cls = getattr(ast, cname)
    seen: set[tuple[str, str]] = set()
    for node in variants(cls, k - 1):
        for tree, mode in wrap(node):
            try:
                with warnings.catch_warnings():
                    warnings.simplefilter("ignore")
                    text = ast.unparse(ast.fix_missing_locations(tree))
            except Exception:  # noqa: BLE001  (unparse cannot render some ill-typed trees)
                continue
            if mode == "exec":
                text += "\n"
            key = (text, mode)
            if key not in seen:
                seen.add(key)
                yield key


# ------------------------------------------------------------------ one-hole contexts (C04 / C05)
HOLE = "__HOLE__"


def contexts(depth: int) -> list[str]:
    """Program texts with exactly one occurrence of HOLE at a Load-position expression."""
    out: dict[str, None] = {}
    hole = lambda: ast.Name(HOLE, ast.Load())  # noqa: E731

    def place(cls: type, d: int) -> Iterator[Any]:
        """Nodes of class cls with exactly one hole, at depth d below cls."""
        for name, ty, q in fields(cls):
            key = (cls.__name__, name)
            minlen = MINLEN.get(key, 0)
            cands: list[Any] = []
            if ty == "expr":
                if d == 1:
                    cands = [hole()]
                else:
                    cands = [n for c in classes("expr") for n in place(c, d - 1)]
            elif ty in SORTS and d > 1:
                cands = [n for c in classes(ty) for n in place(c, d - 1)]
            for v in cands:
                if q in ("", "?"):
                    node = minimal_of(cls)
                    setattr(node, name, v)
                    yield fix(node)
                else:
                    for ln, pos in ((max(1, minlen), 0), (max(2, minlen), 1)):
                        if pos >= ln:
                            continue
                        node = minimal_of(cls)
                        lst = [_distinct(minimal(ty), i + 1) for i in range(ln)]
                        lst[pos] = v
                        setattr(node, name, lst)
                        yield fix(node)

    for d in range(1, depth + 1):
        for sort in SORTS:
            for c in classes(sort):
                for node in place(c, d):
                    for tree, mode in wrap(node):
                        if mode != "exec":
                            continue
                        try:
                            text = ast.unparse(ast.fix_missing_locations(tree)) + "\n"
                        except Exception:  # noqa: BLE001
                            continue
                        if text.count(HOLE) == 1:
                            out.setdefault(text, None)
    return list(out)
