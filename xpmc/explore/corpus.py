"""Seed corpora: frozen copies under /verif/corpus plus hand-written pools (DESIGN §2.1, C13, C14)."""
from __future__ import annotations

import json
import os
from functools import lru_cache

from ..core.env import VERIF


@lru_cache(maxsize=None)
def _py() -> dict:
    with open(os.path.join(VERIF, "corpus", "python.json"), encoding="utf-8") as f:
        return json.load(f)


def python_stmts() -> list[str]:
    """Top-level statements of the frozen Python data files (shortest first), all accepted by CPython."""
    return list(_py()["stmts"])


def python_files() -> dict[str, str]:
    return dict(_py()["files"])


@lru_cache(maxsize=None)
def xonsh_tests() -> tuple[str, ...]:
    with open(os.path.join(VERIF, "corpus", "xonsh_tests.json"), encoding="utf-8") as f:
        return tuple(json.load(f)["xsh"])


@lru_cache(maxsize=None)
def error_snippets() -> tuple[str, ...]:
    """Erroneous inputs of the repository's own error tests (frozen by tools/build_error_corpus.py)."""
    with open(os.path.join(VERIF, "corpus", "errors.json"), encoding="utf-8") as f:
        return tuple(json.load(f)["errors"])


# Complete top-level statements, one per Python statement kind and per xonsh statement form.
# Every entry has a non-empty body and ends with a newline (C14's quantifier).
PY_POOL = [
    "x = 1\n",
    "a, *b = c\n",
    "x: int = 3\n",
    "x += f(1, k=2)\n",
    "print(a.b[0], *c, **d)\n",
    "del a, b[0]\n",
    "pass\n",
    "import a.b as c, d\n",
    "from . import (a, b as c)\n",
    "global g\n",
    "assert a, 'm'\n",
    "raise E from None\n",
    "if a:\n    b\nelif c:\n    d\nelse:\n    e\n",
    "for i in range(3):\n    continue\nelse:\n    pass\n",
    "while a:\n    break\n",
    "def f(a, /, b=1, *c, d, **e) -> int:\n    return a\n",
    "async def g():\n    await h()\n    async with a as b:\n        pass\n    async for i in j:\n        yield i\n",
    "@dec(1)\nclass C(B, metaclass=M):\n    x = 1\n\n    def m(self):\n        pass\n",
    "with a as b, c:\n    pass\n",
    "try:\n    a\nexcept E as e:\n    b\nelse:\n    c\nfinally:\n    d\n",
    "try:\n    a\nexcept* E:\n    b\n",
    "match a:\n    case [1, *r] if r:\n        pass\n    case {'k': v, **kw} | C(x=1):\n        pass\n    case _:\n        pass\n",
    "type A[T] = list[T]\n",
    "x = (1 +\n     2)\n",
    "s = '''multi\nline'''\n",
    "y = f'{a!r:>{w}} b'\n",
    "z = [i for i in a if i]; w = {k: v for k, v in b}\n",
    "lambda a, *b: (yield)\n",
    "t = a if b else c; u = not a or b and c\n",
    "v = a @ b ** -c // d\n",
]

XSH_POOL = [
    "$(ls -l)\n",
    "$[echo hi]\n",
    "!(git status)\n",
    "![make -j4 all]\n",
    "$X = 'v'\n",
    "${'a' + 'b'} = 1\n",
    "y = $HOME\n",
    "f!(a, b)\n",
    "g!(x=1, 'a,b)', [c, d])\n",
    "with! ctx as c:\n    raw text here\n    more $ lines\n",
    "with! ctx: one line body\n",
    "$[echo! raw | text (here)]\n",
    "x = $(echo! a 'b')\n",
    "p = p'/tmp'\n",
    "q = pf'/tmp/{a}'\n",
    "r = pr'\\d'\n",
    "range?\n",
    "b??\n",
    "ok = ![ls] && ![pwd] || !(true)\n",
    "for $I in $(seq 3):\n    echo = $(echo @(I))\n",
    "$(echo @(x) @$(which ls) $HOME 'q s' `a.*`)\n",
    "files = `.*\\.py`\n",
    "g = g`*.txt`; r = @foo`bar`\n",
    "$(ls | grep x > out.txt)\n",
    "z = $(ls $[pwd])\n",
    "!(echo ${'x'})\n",
]

POOL = PY_POOL + XSH_POOL
