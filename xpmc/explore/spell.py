"""E-SPELL: lexical spelling families shared by C01 / C02 / C09 (and C06 for the number-like words).

* numbers(n): every string over the 15-character numeric alphabet up to length n (the family C09 compares token by
  token), here as programs so that C01 / C02 compare trees and verdicts;
* prefixed strings: every run of up to three of the letters b r u f (both cases) in front of the four quote styles;
* identifiers: every string of up to three characters over an alphabet holding one character of each class that
  matters for Python's definition of a name (XID_Start / XID_Continue, NFKC), inside the places a name can stand.
"""
from __future__ import annotations

import itertools
from typing import Iterator

NUM = "019_.eEjxobaf+-"


def _strings(alpha: str, prefix: str, n: int) -> Iterator[str]:
    stack = [prefix]
    while stack:
        s = stack.pop()
        yield s
        if len(s) < n:
            stack.extend(s + c for c in reversed(alpha))


def number_units(n: int) -> list[tuple]:
    return [("spell", "num", c, n) for c in NUM]


PREFIX_LETTERS = "bBrRuUfF"
QUOTES = ["'", '"', "'''", '"""']
PREFIX_BODIES = ["", "x", "{a}", "\\n"]


def prefix_units() -> list[tuple]:
    return [("spell", "prefix", c, 3) for c in PREFIX_LETTERS]


# one character per class: ASCII letter / digit / underscore; Latin-1 letter; combining marks Mn, Mc; U+00B7 (Other_ID_Continue);
# U+2118 (Other_ID_Start); letters that NFKC rewrites (U+00AA, fullwidth w, micro sign, mathematical bold x - astral);
# word characters that are not identifier characters (superscript two, Arabic-Indic zero); connector punctuation U+203F;
# a variation selector (U+E0100); a currency sign (no word character)
ID_CHARS = ["a", "1", "_", "\u00e9", "\u0301", "\u093f", "\u00b7", "\u2118", "\u00aa", "\uff57", "\u00b5", "\U0001d431", "\u00b2", "\u0660", "\u203f",
            "\U000e0100", "\u20ac"]
ID_CARRIERS = ["{X} = 1\n", "a.{X}\n", "def {X}({X}=1): pass\n", "import {X}.{X} as {X}\n", "def f():\n    global {X}\n", "f({X}=1)\n",
               "match a:\n    case A({X}=1): pass\n", "x = 1 {X}\n", "for {X} in b: pass\n", "x = 1{X}\n"]


def ident_units() -> list[tuple]:
    return [("spell", "ident", i, 3) for i in range(len(ID_CHARS))]


def idents(first: int, n: int) -> Iterator[str]:
    for m in range(0, n):
        for rest in itertools.product(ID_CHARS, repeat=m):
            yield ID_CHARS[first] + "".join(rest)


def expand(unit: tuple) -> Iterator[str]:
    _, kind, first, n = unit
    if kind == "num":
        for s in _strings(NUM, first, n):
            yield "x = " + s + "\n"
            if len(s) <= 4:
                yield s + "if 1 else 2\n"
                yield "f(" + s + ")[" + s + "]\n"
    elif kind == "prefix":
        for p in _strings(PREFIX_LETTERS, first, n):
            for q in QUOTES:
                for body in PREFIX_BODIES:
                    yield f"x = {p}{q}{body}{q}\n"
                    yield f"f({p}{q}{body}{q}, 1)\n"
                yield f"{p}{q}a{q} {p}{q}b{q}\n"
    elif kind == "ident":
        for name in idents(first, n):
            for c in ID_CARRIERS:
                yield c.replace("{X}", name)
    else:
        raise ValueError(unit)


def describe(n: int) -> str:
    return (f"E-SPELL numbers^<={n} over {len(NUM)} characters, {len(PREFIX_LETTERS)}^<=3 string prefixes x 4 quote styles, "
            f"identifiers^<=3 over {len(ID_CHARS)} characters in {len(ID_CARRIERS)} places")
