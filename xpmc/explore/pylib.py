"""E-LIB: every module of the running interpreter's own standard library (incl. its test packages) as one input each.

Not a sample: the corpus is the complete, fixed set of `.py` files under sysconfig's stdlib directory of the pinned
interpreter (CPython 3.12.1 in this image; 1737 UTF-8 files, 31.7 MB), dealt out in units of similar total size.
Quick tier: the files of at most QUICK_BYTES characters; thorough: all.  `which` splits the files between C01 (no
f-string) and C10 (with f-strings).  A case is {"pylib": relative path}; the text is read when the case runs, so replay
files stay small.  A failing file is reduced to the first top-level statement that fails on its own (`reduce_to_stmt`).
"""
from __future__ import annotations

import ast
import io
import os
import sysconfig
import tokenize as py_tokenize
import warnings
from functools import lru_cache
from typing import Any, Callable, Iterator

QUICK_BYTES = 16000
UNITS = 96


def root() -> str:
    return sysconfig.get_paths()["stdlib"]


@lru_cache(maxsize=None)
def files() -> tuple[tuple[str, int], ...]:
    """(relative path, size in bytes), sorted by path: the enumeration order is a function of the installation only."""
    out = []
    base = root()
    for r, dirs, names in os.walk(base):
        dirs[:] = sorted(d for d in dirs if d not in ("site-packages", "__pycache__"))
        for n in sorted(names):
            if n.endswith(".py"):
                p = os.path.join(r, n)
                out.append((os.path.relpath(p, base), os.path.getsize(p)))
    return tuple(out)


def read(rel: str) -> str | None:
    try:
        with open(os.path.join(root(), rel), encoding="utf-8", newline="") as f:
            return f.read()
    except (UnicodeDecodeError, OSError):
        return None  # the few deliberately mis-encoded test files


def units(tier: str, which: str) -> list[tuple]:
    """Greedy packing (largest first) into UNITS bins; unit = ("pylib", which, tier, bin index)."""
    return [("pylib", which, tier, i) for i in range(UNITS)]


@lru_cache(maxsize=None)
def _bins(tier: str) -> tuple[tuple[str, ...], ...]:
    sel = [(rel, size) for rel, size in files() if tier != "quick" or size <= QUICK_BYTES]
    bins: list[list[str]] = [[] for _ in range(UNITS)]
    load = [0] * UNITS
    for rel, size in sorted(sel, key=lambda x: (-x[1], x[0])):
        i = min(range(UNITS), key=lambda j: (load[j], j))
        bins[i].append(rel)
        load[i] += size + 2000
    return tuple(tuple(b) for b in bins)


def expand(unit: tuple) -> Iterator[dict]:
    _, which, tier, i = unit
    for rel in _bins(tier)[i]:
        yield {"pylib": rel, "which": which}


def describe(tier: str) -> str:
    sel = [(rel, size) for rel, size in files() if tier != "quick" or size <= QUICK_BYTES]
    return (f"E-LIB {len(sel)} standard-library modules of the running interpreter ({sum(s for _, s in sel)} bytes"
            + (f", those of at most {QUICK_BYTES} bytes" if tier == "quick" else ", all") + ") as whole files")


def code_has_at_paren(src: str) -> bool:
    """'@' directly followed by '(' in code (not in a string or comment): the xonsh digraph, outside C01's domain."""
    if "@(" not in src:
        return False
    try:
        with warnings.catch_warnings():
            warnings.simplefilter("ignore")
            prev = None
            for t in py_tokenize.generate_tokens(io.StringIO(src).readline):
                if prev is not None and prev.string == "@" and prev.type == py_tokenize.OP and t.string == "(" and t.start == prev.end:
                    return True
                prev = t
    except (py_tokenize.TokenError, SyntaxError, ValueError):
        return True
    return False


def has_fstring_token(src: str) -> bool:
    try:
        with warnings.catch_warnings():
            warnings.simplefilter("ignore")
            return any(t.type == py_tokenize.FSTRING_START for t in py_tokenize.generate_tokens(io.StringIO(src).readline))
    except (py_tokenize.TokenError, SyntaxError, ValueError):
        return False


def statements(src: str, ref: ast.Module) -> Iterator[str]:
    """Source text of every top-level statement (with its decorators), as a program of its own."""
    lines = src.split("\n")
    for st in ref.body:
        first = min([st.lineno] + [d.lineno for d in getattr(st, "decorator_list", [])])
        yield "\n".join(lines[first - 1 : st.end_lineno]) + "\n"


def reduce_to_stmt(src: str, ref: ast.Module, fails: Callable[[str], Any]) -> tuple[str, Any] | None:
    """First top-level statement that fails on its own: (text, what `fails` returned)."""
    for s in statements(src, ref):
        if s.lstrip(" \t\f")[:1] != s[:1]:
            continue  # an indented first line (a statement that follows ';' on a continuation) is no program
        r = fails(s)
        if r:
            return s, r
    return None
