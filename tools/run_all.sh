#!/bin/sh
# usage: tools/run_all.sh [quick|thorough] [IDs...]   — run checks, one summary line each
TIER=${1:-quick}; shift 2>/dev/null
cd /verif || exit 2
IDS=${*:-$(python3 -c "import json;print(' '.join(c['property_id'] for c in json.load(open('MANIFEST.json'))['checks']))")}
for id in $IDS; do
  out=$(timeout 7200 bin/check "$id" --tier "$TIER" 2>&1); rc=$?
  nv=$(printf '%s\n' "$out" | grep -c '^VIOLATION'); nk=$(printf '%s\n' "$out" | grep -c '^KNOWN-FINDING')
  echo "$id rc=$rc violations=$nv known=$nk :: $(printf '%s\n' "$out" | grep "^\[$id\] [0-9]" | tail -1)"
  [ "$rc" != 0 ] && printf '%s\n' "$out" | grep -A3 '^VIOLATION\|HARNESS' | head -12
done
