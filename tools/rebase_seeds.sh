#!/bin/sh
# Re-base stored seed patches that no longer apply to /repo HEAD, where that is mechanical:
#  (1) plain `git apply`; (2) the same patch with the generated helpers renumbered the way fix 7823151 renumbered them
#  (_tmp_N -> _tmp_{N-1} for N > 37, parser.py hunks only); (3) `patch --fuzz=3`.
# A patch re-based this way is then re-confirmed with tools/confirm_seed.sh (tests + demo). Others are listed for hand work.
WT=$(mktemp -d /tmp/xpmc-rebase-XXXXXX); rmdir "$WT"
git -C /repo worktree add -q --detach "$WT" HEAD || exit 2
trap 'git -C /repo worktree remove --force "$WT" 2>/dev/null; rm -rf "$WT"' EXIT INT TERM
for d in ${SEEDS:-/verif/seeded/*/}; do
  s=$(basename "$d"); p=/verif/seeded/$s/patch.diff
  git -C "$WT" checkout -q -- . ; git -C "$WT" clean -fdq
  if git -C "$WT" apply --check "$p" 2>/dev/null; then echo "$s applies"; continue; fi
  /venv/bin/python - "$p" > "$WT/.renum.diff" <<'PY'
import re, sys
out, in_parser = [], False
for line in open(sys.argv[1], encoding="utf-8"):
    if line.startswith("diff --git"):
        in_parser = "peg_parser/parser.py" in line
    if in_parser and not line.startswith(("diff --git", "index ", "--- ", "+++ ")):
        line = re.sub(r"_tmp_(\d+)\b", lambda m: f"_tmp_{int(m.group(1)) - 1}" if int(m.group(1)) > 37 else m.group(0), line)
    out.append(line)
sys.stdout.write("".join(out))
PY
  how=""
  if git -C "$WT" apply "$WT/.renum.diff" 2>/dev/null; then how="renumbered"
  elif (cd "$WT" && patch -p1 --fuzz=3 -s < "$p" >/dev/null 2>&1); then how="fuzz"
  else git -C "$WT" checkout -q -- . ; git -C "$WT" clean -fdq
    if (cd "$WT" && patch -p1 --fuzz=3 -s < "$WT/.renum.diff" >/dev/null 2>&1); then how="renumbered+fuzz"; fi
  fi
  find "$WT" -name "*.orig" -delete; find "$WT" -name "*.rej" -delete; rm -f "$WT/.renum.diff"
  if [ -z "$how" ]; then echo "$s NEEDS-HAND-REBASE"; continue; fi
  mkdir -p /tmp/seedwork/auto-$s; cp /verif/seeded/$s/demo.py /verif/seeded/$s/meta.json /tmp/seedwork/auto-$s/
  git -C "$WT" diff > /tmp/seedwork/auto-$s/patch.diff
  echo "$s rebased ($how): $(/verif/tools/confirm_seed.sh /tmp/seedwork/auto-$s $s 2>&1 | grep -v conda | tr '\n' ' ' | cut -c1-160)"
done
