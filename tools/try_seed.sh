#!/bin/sh
# usage: tools/try_seed.sh <patch.diff> <tier> <ID> [<ID> ...]
# Runs the checks against the patched code and prints what they report.
# Default: a scratch worktree of /repo HEAD with the patch applied (XPMC_REPO points the checks at it; /repo is untouched,
# so several of these can run side by side).  With SEED_INPLACE=1 the patch is applied to /repo itself and reverted
# afterwards (git -C /repo apply … ; git -C /repo checkout -- .), which is how the brief describes it.
PATCH=$1; TIER=$2; shift 2
cd "$(dirname "$0")/.." || exit 2; HERE=$(pwd)
if [ -n "$SEED_INPLACE" ]; then
  if [ -n "$(git -C /repo status --porcelain --untracked-files=no)" ]; then echo "/repo is dirty; refusing"; exit 2; fi
  git -C /repo apply "$PATCH" || { echo "PATCH DOES NOT APPLY: $PATCH"; exit 3; }
  trap 'git -C /repo checkout -- . ' EXIT INT TERM
else
  WT=$(mktemp -d /tmp/xpmc-seed-XXXXXX); rmdir "$WT"
  git -C /repo worktree add -q --detach "$WT" HEAD || exit 2
  trap 'git -C /repo worktree remove --force "$WT" 2>/dev/null; rm -rf "$WT"' EXIT INT TERM
  git -C "$WT" apply "$PATCH" || { echo "PATCH DOES NOT APPLY: $PATCH"; exit 3; }
  export XPMC_REPO="$WT"
fi
for id in "$@"; do
  out=$(timeout 3000 bin/check "$id" --tier "$TIER" --no-evidence 2>&1); rc=$?
  nv=$(printf '%s\n' "$out" | grep -c '^VIOLATION')
  echo "== $id rc=$rc violations=$nv"
  printf '%s\n' "$out" | grep -A3 '^VIOLATION\|HARNESS' | head -${SEED_LINES:-12}
done
