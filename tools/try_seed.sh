#!/bin/sh
# usage: tools/try_seed.sh <patch.diff> <tier> <ID> [<ID> ...]   — apply to /repo, run checks (no evidence), revert.
PATCH=$1; TIER=$2; shift 2
cd /verif || exit 2
if [ -n "$(git -C /repo status --porcelain --untracked-files=no)" ]; then echo "/repo is dirty; refusing"; exit 2; fi
git -C /repo apply "$PATCH" || { echo "PATCH DOES NOT APPLY: $PATCH"; exit 3; }
trap 'git -C /repo checkout -- . ' EXIT INT TERM
for id in "$@"; do
  out=$(timeout 3000 bin/check "$id" --tier "$TIER" --no-evidence 2>&1); rc=$?
  nv=$(printf '%s\n' "$out" | grep -c '^VIOLATION')
  echo "== $id rc=$rc violations=$nv"
  printf '%s\n' "$out" | grep -A3 '^VIOLATION' | head -${SEED_LINES:-12}
done
