"""One-off: freeze the seed corpora under /verif/corpus (committed; checks never read tests/data)."""
import ast, glob, json, os, re, warnings
warnings.simplefilter("ignore")
REPO = "/repo"
stmts = {}
files = {}
for p in sorted(glob.glob(f"{REPO}/tests/data/*.py")):
    src = open(p, encoding="utf-8").read()
    try:
        tree = ast.parse(src)
    except SyntaxError:
        continue
    files[os.path.basename(p)] = src
    lines = src.splitlines(keepends=True)
    for node in tree.body:
        lo = min([node.lineno] + [d.lineno for d in getattr(node, "decorator_list", [])])
        seg = "".join(lines[lo - 1 : node.end_lineno])
        if not seg.endswith("\n"):
            seg += "\n"
        try:
            ast.parse(seg)
        except SyntaxError:
            continue
        stmts.setdefault(seg, os.path.basename(p))
out = sorted(stmts, key=lambda s: (len(s), s))
json.dump({"stmts": out, "files": files}, open("corpus/python.json", "w"), indent=0, ensure_ascii=True)
print(len(out), "python statements;", len(files), "files")
xs = []
for p in sorted(glob.glob(f"{REPO}/tests/data/exprs/*.py") + glob.glob(f"{REPO}/tests/data/stmts/*.py")):
    src = open(p, encoding="utf-8").read()
    # blocks: '# ' lines until a non-comment line
    cur = []
    for line in src.splitlines():
        if line.startswith("# "):
            cur.append(line[2:])
        elif line.startswith("#"):
            cur.append(line[1:])
        else:
            if cur:
                xs.append("\n".join(cur) + "\n")
            cur = []
xs.append(open(f"{REPO}/tests/data/statements.xsh").read())
xs = sorted(set(xs), key=lambda s: (len(s), s))
json.dump({"xsh": xs}, open("corpus/xonsh_tests.json", "w"), indent=0, ensure_ascii=True)
print(len(xs), "xonsh snippets")
