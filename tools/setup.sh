#!/bin/sh
# Offline setup: nothing to build (pure Python on the standard library); verify the interpreter and the tree under test.
set -e
cd "$(dirname "$0")/.."
mkdir -p evidence replays
PYTHONDONTWRITEBYTECODE=1 PYTHONPATH="$PWD" /venv/bin/python -c "
from xpmc.core import env; env.setup()
import peg_parser.parser, pegen.grammar
print('xpmc setup ok: repo =', env.REPO)"
