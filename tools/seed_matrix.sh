#!/bin/sh
# Run every kept seeded change against the quick check of its own property (scratch worktrees, 3 at a time);
# prints one line per seed: <seed>|<property>|rc=<exit code of the check>|<first violation signature>
cd "$(dirname "$0")/.." || exit 2; HERE=$(pwd)
one() {
  s=$1; id=${s%%-*}
  out=$(SEED_LINES=3 XPMC_WORKERS=${XPMC_WORKERS:-8} tools/try_seed.sh "$HERE/seeded/$s/patch.diff" quick $id 2>&1)
  rc=$(printf '%s\n' "$out" | grep "^== $id" | sed 's/.*rc=\([0-9]*\).*/\1/')
  sig=$(printf '%s\n' "$out" | grep -m1 'signature:' | sed 's/^ *signature: //' | tr '\n' ' ' | cut -c1-110)
  [ -z "$rc" ] && sig=$(printf '%s\n' "$out" | head -1)
  echo "$s|$id|rc=$rc|$sig"
}
n=0
# SEEDS="C01-e C02-f" restricts the run to those seeds
for d in ${SEEDS:-seeded/*/}; do
  one "$(basename "$d")" &
  n=$((n+1)); [ $((n % 3)) -eq 0 ] && wait
done
wait
