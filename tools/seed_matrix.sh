#!/bin/sh
# Run every kept seeded change against the quick check of its own property; prints one line per seed.
cd /verif || exit 2
for d in seeded/*/; do
  s=$(basename "$d"); id=${s%%-*}
  out=$(SEED_LINES=3 tools/try_seed.sh /verif/seeded/$s/patch.diff quick $id 2>&1)
  rc=$(printf '%s\n' "$out" | grep "^== $id" | sed 's/.*rc=\([0-9]*\).*/\1/')
  sig=$(printf '%s\n' "$out" | grep -m1 'signature:' | sed 's/^ *signature: //' | cut -c1-110)
  echo "$s|$id|rc=$rc|$sig"
done
