"""Helper used while building: append a 'fixed' record to known_findings.json (never used by checks)."""
import json, sys
p = "/verif/known_findings.json"
d = json.load(open(p))
prop, commit, what = sys.argv[1], sys.argv[2], sys.argv[3]
n = 1 + sum(1 for e in d["findings"] if e["status"] == "fixed")
d["findings"].append({"id": f"FX-{n:02d}", "property": prop, "status": "fixed", "commit": commit, "what": what,
                      "record": f"fixed: property={prop} {commit} {what}", "exemplar": json.loads(sys.argv[4]) if len(sys.argv) > 4 else None})
json.dump(d, open(p, "w"), indent=1, ensure_ascii=True)
