#!/bin/sh
# usage: tools/confirm_seed.sh <dir with patch.diff demo.py meta.json> <seed-id>
# Confirms in a scratch worktree: patch applies to /repo HEAD, full test-suite result unchanged, demo exits 1 with / 0 without.
SRC=$1; SID=$2
WT=$(mktemp -d /tmp/xpmc-confirm-XXXXXX); rmdir "$WT"
git -C /repo worktree add -q --detach "$WT" HEAD || exit 2
cleanup() { git -C /repo worktree remove --force "$WT" 2>/dev/null; rm -rf "$WT"; }
trap cleanup EXIT INT TERM
cd "$WT" || exit 2
cp "$SRC/demo.py" "$WT/.demo.py"
PYTHONPATH="$WT" /venv/bin/python .demo.py >/tmp/.demo_clean.$$.out 2>&1; c0=$?
git apply "$SRC/patch.diff" || { echo "CONFIRM $SID: patch does not apply"; exit 3; }
PYTHONPATH="$WT" /venv/bin/python .demo.py >/tmp/.demo_patched.$$.out 2>&1; c1=$?
summary=$(PYTHONPATH="$WT" timeout 900 /venv/bin/python -m pytest -q -p no:cacheprovider 2>&1 | tail -1)
echo "CONFIRM $SID: demo clean=$c0 patched=$c1 tests: $summary"
case "$summary" in *"2000 passed, 8 xfailed, 2 xpassed"*) ok=1;; *) ok=0;; esac
if [ "$c0" = 0 ] && [ "$c1" = 1 ] && [ "$ok" = 1 ]; then
  mkdir -p /verif/seeded/$SID
  cp "$SRC/patch.diff" "$SRC/demo.py" /verif/seeded/$SID/
  /venv/bin/python - "$SRC/meta.json" "/verif/seeded/$SID/meta.json" "$summary" "$(git -C /repo log --format=%h -1)" <<'PY'
import json, sys
m = json.load(open(sys.argv[1]))
m["confirmed"] = {"repo_head": sys.argv[4], "tests_with_patch": sys.argv[3], "demo_exit_clean": 0, "demo_exit_patched": 1,
                  "how": "scratch worktree of /repo HEAD; git apply patch.diff; full pytest run; demo.py run with PYTHONPATH=<worktree> before and after applying"}
json.dump(m, open(sys.argv[2], "w"), indent=1)
PY
  echo "KEPT /verif/seeded/$SID"
else
  echo "REJECTED $SID"; tail -5 /tmp/.demo_clean.$$.out; tail -5 /tmp/.demo_patched.$$.out
fi
