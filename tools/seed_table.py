"""Build the markdown table of DESIGN.md section 6.5 from seed_matrix output files (later files override earlier ones)."""
import json, os, sys
res = {}
for f in sys.argv[1:]:
    for line in open(f, encoding="utf-8", errors="replace"):
        parts = line.rstrip("\n").split("|")
        if len(parts) >= 4 and parts[2].startswith("rc="):
            res[parts[0]] = (parts[2][3:], parts[3].strip())
missed_first = set("C03-a C04-b C06-b C11-b C01-c C01-d C03-c C05-c C05-d C06-c C07-c C08-c C10-c C11-c C11-d C13-c C13-d C14-c "
                   "C14-d C15-c C01-e C02-e C03-e C04-f C05-e C07-e C09-f C13-e C14-e C18-e "
                   "C10-e C05-g C07-g C07-h C13-g C13-h C14-h C15-g C17-g C18-g "
                   "C01-j C02-i C03-i C03-j C06-j C10-j C11-j C13-j C15-i C15-j C17-j C13-n C17-m".split())
print("| change | what it does | caught as (quick tier) |")
print("|---|---|---|")
for s in sorted(d for d in os.listdir("/verif/seeded") if os.path.isdir(f"/verif/seeded/{d}")):
    m = json.load(open(f"/verif/seeded/{s}/meta.json"))
    title = m["title"].replace("|", "/")
    if len(title) > 150:
        title = title[:147] + "..."
    rc, sig = res.get(s, ("?", "(not run)"))
    sig = sig.replace("|", "/").replace("\n", " ")
    mark = " †" if s in missed_first else ""
    print(f"| {s}{mark} | {title} | {'`' + sig[:100] + '`' if rc == '1' else 'rc=' + rc + ' ' + sig[:60]} |")
