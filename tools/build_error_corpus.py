"""One-off: freeze the erroneous snippets of the repository's own error tests under /verif/corpus/errors.json
(committed; checks never read the tests). A snippet is kept if the pinned tree raises SyntaxError for it."""
import ast, json, sys, warnings
warnings.simplefilter("ignore")
sys.path.insert(0, "/repo")
from peg_parser.parser import XonshParser
seen = {}
for name in ("test_syntax_error_handling.py", "test_invalid.py"):
    tree = ast.parse(open(f"/repo/tests/{name}", encoding="utf-8").read())
    for node in ast.walk(tree):
        if isinstance(node, ast.Constant) and isinstance(node.value, str) and node.value.strip() and len(node.value) < 200:
            s = node.value
            for cand in (s, s + "\n"):
                try:
                    XonshParser.parse_string(cand)
                except SyntaxError as e:
                    seen.setdefault(cand if cand.endswith("\n") else cand + "\n", (e.msg or "")[:60])
                    break
                except Exception:
                    break
                else:
                    break
out = sorted(seen, key=lambda s: (len(s), s))
json.dump({"errors": out}, open("/verif/corpus/errors.json", "w"), indent=0, ensure_ascii=True)
print(len(out), "error snippets;", len(set(seen.values())), "distinct messages")
