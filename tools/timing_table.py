"""Markdown table of what each registered quick command covered, from evidence/<id>.json (written by the checks)."""
import json, glob
NOTE = {
 "C01": "distinct inputs of the prefix trees, carriers, ASDL paths, layouts (incl. indentation units, separators), edits",
 "C02": "same spaces, rejected side", "C03": "inputs x {tokenize, exec, eval} (+ parse_file), E-LINE transitions, size families",
 "C04": "accepted inputs incl. all xonsh explorers", "C05": "construct x context pairs", "C06": "command lines", "C07": "macro inputs",
 "C08": "inputs + E-LINE transitions", "C09": "inputs + tokenizer line states / transitions", "C10": "f-string bodies, products, nestings",
 "C11": "rejected inputs (string and file entry points)", "C12": "(content, environment) groups", "C13": "histories, heap fingerprints, schedules",
 "C14": "statement sequences", "C15": "inputs x option points", "C16": "generations + inputs x 2 classes x 2 modes",
 "C17": "grammars; traces_validated_against_impl = model traces replayed on the generated parser", "C18": "families x sizes",
}
print("| id | cases enumerated | executions of the real code | distinct non-trivial | wall (s) | evidence `states` are |")
print("|---|---|---|---|---|---|")
for f in sorted(glob.glob("/verif/evidence/C*.json")):
    e = json.load(open(f)); c = e["coverage"]
    if e.get("tier") != "quick":
        continue
    print(f"| {e['property_id']} | {c.get('cases_enumerated', c['states']):,} | {c.get('evaluations', c['traces_validated_against_impl']):,} | {c.get('distinct_nontrivial', 0):,} | {e['wall_s']:.0f} | {NOTE.get(e['property_id'], '')} |")
