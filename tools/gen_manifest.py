"""Regenerate MANIFEST.json from the property modules that exist (run with /venv/bin/python tools/gen_manifest.py)."""
import importlib, json, os, sys
sys.path.insert(0, os.path.dirname(os.path.dirname(os.path.abspath(__file__))))
os.environ.setdefault("XPMC_REPO", "/repo")
from xpmc.core import env
env.setup()
props = [json.loads(l) for l in open(os.path.join(env.VERIF, "properties.jsonl"))]
checks, na = [], []
for p in props:
    pid = p["id"]
    path = os.path.join(env.VERIF, "xpmc", "props", pid.lower() + ".py")
    if not os.path.exists(path):
        na.append({"property_id": pid, "reason": "check not built yet (planned in DESIGN.md section 3); not claimed until its explorer exists"})
        continue
    mod = importlib.import_module(f"xpmc.props.{pid.lower()}")
    checks.append({
        "property_id": pid,
        "quick_cmd": f"bin/check {pid} --tier quick",
        "thorough_cmd": f"bin/check {pid} --tier thorough",
        "evidence_file": f"/verif/evidence/{pid}.json",
        "replay_cmd_template": f"bin/check {pid} --replay {{path}}",
        "engine": "xpmc",
        "level_claimed": {
            "category": "model_checking",
            "text": mod.LEVEL_TEXT if hasattr(mod, "LEVEL_TEXT") else (
                "Bounded exhaustive exploration of the real code: every case of the stated finite space is executed and "
                "checked against an independent oracle; nothing is sampled. " + mod.RULE),
            "design_ref": f"DESIGN.md section 3, {pid}",
        },
        "level_note": "; ".join(getattr(mod, "ASSUMPTIONS", [])) or "bounds as stated in the evidence file",
        "technique": getattr(mod, "TECHNIQUE", "explicit-state / bounded exhaustive enumeration on the implementation (" + mod.ENGINE + ")"),
    })
man = {
    "version": 1,
    "setup_cmd": "sh tools/setup.sh",
    "hooks": {
        "guard": "XONSH_PARSER_VERIF",
        "enable": "no source hooks are needed: checks import /repo's working tree directly (sys.path[0]=/repo) and observe state through public constructors, generator frames, gc and sys.settrace; the variable is exported by bin/check for completeness",
        "baseline_off_cmd": "cd /repo && env -u XONSH_PARSER_VERIF /venv/bin/python -m pytest -ra -q -p no:cacheprovider --timeout=900 --continue-on-collection-errors",
        "source_commits": [],
        "add_only": True,
    },
    "engines": [
        {"name": "xpmc", "path": "/verif/xpmc", "serves_properties": [c["property_id"] for c in checks],
         "kind_free_text": "hand-written explicit-state / bounded-exhaustive explorer for Python code: prefix-tree enumeration of token, character, edit, layout and abstract-grammar spaces, BFS over tokenizer line states and heap fingerprints, deviation-bounded thread-schedule exploration; 16 workers with a parent-side watchdog"},
    ],
    "checks": checks,
    "not_applicable": na,
    "notes": "All checks run /venv/bin/python against /repo's current working tree; known findings are listed in /verif/known_findings.json (read-only at run time).",
}
json.dump(man, open(os.path.join(env.VERIF, "MANIFEST.json"), "w"), indent=1)
print("checks:", [c["property_id"] for c in checks], "n/a:", [n["property_id"] for n in na])
